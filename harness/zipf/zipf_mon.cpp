// E4: reference-model monitor for ZipfDistribution / ApproxZipfDistribution.
//
// usage: zipf_mon mode=c06|c18|c19 seed=S part=I of=N scale=K
#define VERIF_MAIN_TU
#include <cmath>
#include <limits>
#include <memory>
#include <random>
#include <set>
#include <stdexcept>
#include <thread>
#include <type_traits>

#include "../common/vcommon.hpp"
#include "dbgroup/random/zipf.hpp"

#if VERIF_TSAN
static std::atomic<uint64_t> g_tsan_reports{0};
extern "C" void
__tsan_on_report(void *)
{
  g_tsan_reports.fetch_add(1, std::memory_order_relaxed);
}
#endif

namespace vf
{
using ::dbgroup::random::ApproxZipfDistribution;
using ::dbgroup::random::ZipfDistribution;

// engine that replays a script of 64-bit words
struct ScriptEngine {
  using result_type = uint64_t;
  static constexpr result_type
  min()
  {
    return 0;
  }
  static constexpr result_type
  max()
  {
    return ~0ULL;
  }
  uint64_t word{0};
  uint64_t calls{0};
  result_type
  operator()()
  {
    ++calls;
    return word;
  }
};

template <class I>
const char *
TypeName()
{
  if (std::is_same_v<I, uint32_t>) return "uint32";
  if (std::is_same_v<I, uint64_t>) return "uint64";
  if (std::is_same_v<I, int32_t>) return "int32";
  return "int64";
}

using I128 = __int128;

struct Ctx {
  Result res;
  uint64_t seed{1};
  uint64_t part{0}, of{1}, scale{1};
  uint64_t case_no{0};
  std::set<std::string> sigs;
  bool
  Mine()
  {
    return (case_no++ % of) == part;
  }
};

template <class I>
std::string
ParamStr(const char *cls, I128 mn, I128 mx, double alpha)
{
  auto str = [](I128 v) {
    if (v >= 0 && v > static_cast<I128>(std::numeric_limits<long long>::max())) return Fmt("%llu", static_cast<unsigned long long>(v));
    return Fmt("%lld", static_cast<long long>(v));
  };
  return Fmt("%s<%s>(min=%s,max=%s,alpha=%.17g)", cls, TypeName<I>(), str(mn).c_str(), str(mx).c_str(), alpha);
}

/*##############################################################################
 * C06: inverse-CDF sampling, range
 *############################################################################*/
template <class I, class D>
void
C06One(Ctx &c, const char *cls, D &d, I mn, I mx, double alpha, const std::vector<uint64_t> &ks,
       bool dense_words)
{
  const I128 n = static_cast<I128>(mx) - static_cast<I128>(mn) + 1;
  const auto ps = ParamStr<I>(cls, mn, mx, alpha);
  uint64_t below = 0, equal = 0, above = 0, draws = 0;
  auto one = [&](uint64_t word, uint64_t around_k, bool has_k = true) {
    ScriptEngine g;
    g.word = word;
    ScriptEngine g2 = g;
    std::uniform_real_distribution<double> ref{0.0, 1.0};
    const double u = ref(g2);
    I v{};
    try {
      v = d(g);
    } catch (const std::exception &e) {
      Violate("C06", Fmt("%s:operator()-threw", cls), Fmt("%s engine word=%" PRIu64 " threw %s", ps.c_str(), word, e.what()));
      return;
    }
    ++draws;
    if (v < mn || v > mx) {
      Violate("C06", Fmt("%s:value-out-of-range", cls),
              Fmt("%s engine word=%" PRIu64 " (u=%.17g) returned %lld", ps.c_str(), word, u, static_cast<long long>(v)));
      return;
    }
    const I128 idx = static_cast<I128>(v) - static_cast<I128>(mn);
    double hi = 0, lo = -1;
    try {
      hi = d.GetCDF(static_cast<I>(idx));
      if (idx > 0) lo = d.GetCDF(static_cast<I>(idx - 1));
    } catch (const std::exception &e) {
      Violate("C06", Fmt("%s:GetCDF-threw", cls), Fmt("%s idx=%lld threw %s", ps.c_str(), static_cast<long long>(idx), e.what()));
      return;
    }
    if (!(u <= hi) || (idx > 0 && !(lo <= u))) {
      const char *where = (n > 100 && idx >= 98 && idx <= 101) ? "at-exact/approximate-seam" : "interior";
      Violate("C06", Fmt("%s:not-inverse-cdf:%s", cls, where),
              Fmt("%s engine word=%" PRIu64 " gives u=%.17g, returned v=%lld (bin %lld) but GetCDF(bin-1)=%.17g, "
                  "GetCDF(bin)=%.17g",
                  ps.c_str(), word, u, static_cast<long long>(v), static_cast<long long>(idx), lo, hi));
    }
    if (has_k) {
      const double ck = d.GetCDF(static_cast<I>(around_k));
      if (u < ck) {
        ++below;
      } else if (u == ck) {
        ++equal;
      } else {
        ++above;
      }
    }
  };
  static const int kShift[] = {0, 10, 11, 12, 13};
  for (auto k : ks) {
    if (static_cast<I128>(k) >= n) continue;
    const double ck = d.GetCDF(static_cast<I>(k));
    long double w = static_cast<long double>(ck) * 18446744073709551616.0L;
    uint64_t w0 = (w >= 18446744073709551615.0L) ? ~0ULL : static_cast<uint64_t>(w);
    for (int dlt = -3; dlt <= 3; ++dlt) {
      for (int j : kShift) {
        if (!dense_words && j != 0 && j != 11) continue;
        const I128 ww = static_cast<I128>(w0) + static_cast<I128>(dlt) * (static_cast<I128>(1) << j);
        if (ww < 0 || ww > static_cast<I128>(~0ULL)) continue;
        one(static_cast<uint64_t>(ww), k);
      }
    }
  }
  one(0, 0, false);
  one(~0ULL, 0, false);
  one(1ULL << 63, 0, false);
  one(3ULL << 62, 0, false);
  one(1ULL << 62, 0, false);
  // a pseudo-random stream
  std::mt19937_64 mt{c.seed ^ static_cast<uint64_t>(n)};
  for (int i = 0; i < 64; ++i) {
    std::mt19937_64 mt2 = mt;
    std::uniform_real_distribution<double> ref{0.0, 1.0};
    const double u = ref(mt2);
    const I v = d(mt);
    ++draws;
    if (v < mn || v > mx) {
      Violate("C06", Fmt("%s:value-out-of-range", cls), Fmt("%s mt19937_64 draw returned %lld", ps.c_str(), static_cast<long long>(v)));
      continue;
    }
    const I128 idx = static_cast<I128>(v) - static_cast<I128>(mn);
    const double hi = d.GetCDF(static_cast<I>(idx));
    const double lo = idx > 0 ? d.GetCDF(static_cast<I>(idx - 1)) : -1;
    if (!(u <= hi) || (idx > 0 && !(lo <= u))) {
      const char *where = (n > 100 && idx >= 98 && idx <= 101) ? "at-exact/approximate-seam" : "interior";
      Violate("C06", Fmt("%s:not-inverse-cdf:%s", cls, where),
              Fmt("%s mt19937_64 u=%.17g returned bin %lld, GetCDF(bin-1)=%.17g GetCDF(bin)=%.17g", ps.c_str(), u,
                  static_cast<long long>(idx), lo, hi));
    }
  }
  c.res.Add("draws", draws);
  c.res.Add("draws_u_below_breakpoint", below);
  c.res.Add("draws_u_equal_breakpoint", equal);
  c.res.Add("draws_u_above_breakpoint", above);
  c.res.Add("parameter_sets", 1);
  const char *nclass = n == 1 ? "n=1" : (n <= 99 ? "n<100" : (n == 100 ? "n=100" : (n == 101 ? "n=101" : (n < 1000 ? "n<1000" : (n < 1000000 ? "n<1e6" : (n <= (static_cast<I128>(1) << 31) ? "n>=1e6" : (n <= (static_cast<I128>(1) << 62) ? "n>2^31" : "n>2^62")))))));
  const char *aclass = alpha == 0 ? "a=0" : (alpha < 1 ? "a<1" : (alpha == 1 ? "a=1" : (alpha <= 3 ? "a<=3" : "a>3")));
  const char *mclass = mn == std::numeric_limits<I>::min() ? "min=lowest" : (mx == std::numeric_limits<I>::max() ? "max=highest" : (mn < 0 ? "min<0" : "min>=0"));
  c.sigs.insert(Fmt("c06:%s<%s>:%s:%s:%s", cls, TypeName<I>(), nclass, aclass, mclass));
  if (c.res.samples.size() < 4) c.res.samples.push_back("\"" + JEsc(ps) + Fmt(" breakpoints probed=%zu", ks.size()) + "\"");
}

std::vector<uint64_t>
Breakpoints(uint64_t n, Rng &r)
{
  std::vector<uint64_t> ks;
  if (n <= 300) {
    for (uint64_t k = 0; k < n; ++k) ks.push_back(k);
    return ks;
  }
  for (uint64_t k : {0ULL, 1ULL, 2ULL, 50ULL, 97ULL, 98ULL, 99ULL, 100ULL, 101ULL, 102ULL, 103ULL, 150ULL, 999ULL}) ks.push_back(k);
  ks.push_back(n - 1);
  ks.push_back(n - 2);
  ks.push_back(n - 3);
  ks.push_back(n / 2);
  for (int i = 0; i < 24; ++i) ks.push_back(r.Below(n));
  for (int i = 0; i < 8; ++i) ks.push_back(r.Below(std::min<uint64_t>(n, 2000)));
  return ks;
}

template <class I>
void
C06Type(Ctx &c)
{
  Rng r;
  r.Seed(c.seed * 31 + sizeof(I) * 7 + std::is_signed_v<I>);
  using Lim = std::numeric_limits<I>;
  std::vector<uint64_t> ns = {1, 2, 3, 4, 5, 10, 50, 99, 100, 101, 102, 150, 255, 256, 1000, 1001, 1099, 1100, 5000};
  for (uint64_t i = 0; i < 6 * c.scale; ++i) ns.push_back(r.Range(1, 200000));
  for (uint64_t i = 0; i < 4 * c.scale; ++i) ns.push_back(r.Range(90, 130));
  std::vector<double> alphas = {0, 0.5, 0.99, 1, 1.01, 2, 3, 10, 50, 1100};
  for (int i = 0; i < 4; ++i) alphas.push_back(static_cast<double>(r.Below(3000)) / 1000.0);
  // default-constructed generators
  if (c.Mine()) {
    ZipfDistribution<I> d0;
    ApproxZipfDistribution<I> a0;
    for (uint64_t w : {0ULL, 1ULL, ~0ULL, 1ULL << 63, 12345678901234567ULL}) {
      ScriptEngine g;
      g.word = w;
      if (d0(g) != 0 || a0(g) != 0) {
        Violate("C06", "default-constructed-generator-returned-nonzero", Fmt("type %s word %" PRIu64, TypeName<I>(), w));
      }
    }
    std::mt19937_64 mt{c.seed};
    for (int i = 0; i < 1000; ++i) {
      if (d0(mt) != 0 || a0(mt) != 0) Violate("C06", "default-constructed-generator-returned-nonzero", TypeName<I>());
    }
    c.res.Add("draws", 2010);
    c.sigs.insert(Fmt("c06:default<%s>", TypeName<I>()));
  }
  ZipfDistribution<I> zvictim;
  ApproxZipfDistribution<I> avictim;
  for (auto n : ns) {
    for (auto alpha : alphas) {
      // placements of [min, max]
      std::vector<I128> mins = {0, 1};
      if (std::is_signed_v<I>) {
        mins.push_back(-static_cast<I128>(n) / 2);
        mins.push_back(static_cast<I128>(Lim::min()));
        mins.push_back(-5);
      }
      mins.push_back(static_cast<I128>(Lim::max()) - static_cast<I128>(n) + 1);  // max == highest
      const auto mn128 = mins[r.Below(mins.size())];
      const auto mx128 = mn128 + static_cast<I128>(n) - 1;
      if (mn128 < static_cast<I128>(Lim::min()) || mx128 > static_cast<I128>(Lim::max())) continue;
      if (!c.Mine()) continue;
      const I mn = static_cast<I>(mn128), mx = static_cast<I>(mx128);
      auto ks = Breakpoints(n, r);
      try {
        ZipfDistribution<I> d{mn, mx, alpha};
        C06One<I>(c, "Zipf", d, mn, mx, alpha, ks, n <= 300);
        if (r.Chance(1, 3)) {
          // the same parameters arrive by copy assignment in an object that had other parameters before
          zvictim = d;
          C06One<I>(c, "Zipf(copy-assigned)", zvictim, mn, mx, alpha, ks, false);
        }
      } catch (const std::exception &e) {
        Violate("C06", "Zipf:constructor-threw-on-admissible-input", ParamStr<I>("Zipf", mn128, mx128, alpha) + " " + e.what());
      }
      try {
        ApproxZipfDistribution<I> d{mn, mx, alpha};
        C06One<I>(c, "ApproxZipf", d, mn, mx, alpha, ks, n <= 300);
        if (r.Chance(1, 3)) {
          avictim = d;
          C06One<I>(c, "ApproxZipf(copy-assigned)", avictim, mn, mx, alpha, ks, false);
        }
      } catch (const std::exception &e) {
        Violate("C06", "ApproxZipf:constructor-threw-on-admissible-input", ParamStr<I>("ApproxZipf", mn128, mx128, alpha) + " " + e.what());
      }
    }
  }
  // large approximate distributions
  // (bin counts up to the largest admissible one: n <= type max - 200; positions beyond 2^31, 2^32, 2^62 and 2^63)
  std::vector<uint64_t> big = {1000000, 10000019, 100000000};
  if (sizeof(I) == 8) {
    big.push_back(1000000000ULL);
    if (c.scale >= 8) big.push_back(10000000000ULL);
    for (uint64_t n : std::initializer_list<uint64_t>{(1ULL << 32) + 7, (1ULL << 40) + 3, (1ULL << 53) + 1, (1ULL << 62) - 5, (1ULL << 62) + 5,
                                                      static_cast<uint64_t>(std::numeric_limits<int64_t>::max()) - 200}) {
      big.push_back(n);
    }
    if (!std::is_signed_v<I>) {
      big.push_back((1ULL << 63) + 11);
      big.push_back(static_cast<uint64_t>(Lim::max()) - 200);
    }
  } else {
    big.push_back(static_cast<uint64_t>(Lim::max() / 2));
    big.push_back(static_cast<uint64_t>(std::numeric_limits<int32_t>::max()) - 200);
    big.push_back((1ULL << 30) + 3);
    if (!std::is_signed_v<I>) {
      big.push_back((1ULL << 31) + 11);
      big.push_back(3000000000ULL);
      big.push_back(static_cast<uint64_t>(Lim::max()) - 200);
    }
  }
  for (auto n : big) {
    for (double alpha : {0.0, 0.99, 1.0, 2.5}) {
      if (!c.Mine()) continue;
      const bool at_top = r.Chance(1, 2);
      const I128 mn128 = at_top ? static_cast<I128>(Lim::max()) - static_cast<I128>(n) + 1
                                : (std::is_signed_v<I> ? -static_cast<I128>(n) / 2 : 0);
      const I128 mx128 = mn128 + static_cast<I128>(n) - 1;
      if (mn128 < static_cast<I128>(Lim::min()) || mx128 > static_cast<I128>(Lim::max())) continue;
      auto ks = Breakpoints(n, r);
      ApproxZipfDistribution<I> d{static_cast<I>(mn128), static_cast<I>(mx128), alpha};
      C06One<I>(c, "ApproxZipf", d, static_cast<I>(mn128), static_cast<I>(mx128), alpha, ks, false);
    }
  }
}

/*##############################################################################
 * C18: CDF values
 *############################################################################*/
template <class I>
I
C18Min(uint64_t n, int variant)
{
  using Lim = std::numeric_limits<I>;
  switch (variant % 6) {
    case 0: return std::is_signed_v<I> ? static_cast<I>(-3) : static_cast<I>(2);
    case 1: return static_cast<I>(0);
    case 2: return static_cast<I>(95);
    case 3: return static_cast<I>(100000);
    case 4: return static_cast<I>(static_cast<I128>(Lim::max()) - static_cast<I128>(n) + 1);
    default: return std::is_signed_v<I> ? static_cast<I>(-static_cast<I128>(n) - 40 + 100) : static_cast<I>(1000);
  }
}

template <class I>
void
C18ExactImpl(Ctx &c, uint64_t n, double alpha, I mn);

template <class I>
void
C18Exact(Ctx &c, uint64_t n, double alpha)
{
  const I mn = C18Min<I>(n, static_cast<int>(c.case_no));
  try {
    C18ExactImpl<I>(c, n, alpha, mn);
  } catch (const std::exception &e) {
    Violate("C18", "Zipf:constructor-or-GetCDF-threw",
            ParamStr<I>("Zipf", mn, static_cast<I128>(mn) + static_cast<I128>(n) - 1, alpha) + " threw " + e.what());
  }
}

template <class I>
void
C18ExactImpl(Ctx &c, uint64_t n, double alpha, I mn)
{
  const I mx = static_cast<I>(static_cast<I128>(mn) + static_cast<I128>(n) - 1);
  ZipfDistribution<I> d{mn, mx, alpha};
  long double total = 0;
  for (uint64_t i = n; i >= 1; --i) total += powl(static_cast<long double>(i), -static_cast<long double>(alpha));
  long double acc = 0;
  const double tol = 4.0 * static_cast<double>(n) * std::numeric_limits<double>::epsilon();
  double prev = -1;
  const auto ps = ParamStr<I>("Zipf", mn, mx, alpha);
  double worst = 0;
  for (uint64_t k = 0; k < n; ++k) {
    acc += powl(static_cast<long double>(k + 1), -static_cast<long double>(alpha));
    const double ref = static_cast<double>(acc / total);
    const double got = d.GetCDF(static_cast<I>(k));
    const double err = std::fabs(got - ref);
    worst = std::max(worst, err);
    if (!(err <= tol)) {
      Violate("C18", "Zipf:cdf-differs-from-normalised-partial-sum",
              Fmt("%s GetCDF(%" PRIu64 ")=%.17g reference=%.17g |diff|=%.3g tolerance 4*n*eps=%.3g", ps.c_str(), k, got, ref, err, tol));
      break;
    }
    if (got < prev) {
      Violate("C18", Fmt("Zipf:cdf-decreases:%s", k + 1 == n ? "at-last-bin" : "interior"),
              Fmt("%s GetCDF(%" PRIu64 ")=%.17g < GetCDF(%" PRIu64 ")=%.17g", ps.c_str(), k, got, k - 1, prev));
      break;
    }
    prev = got;
  }
  if (d.GetCDF(static_cast<I>(n - 1)) != 1.0) {
    Violate("C18", "Zipf:last-bin-not-exactly-one", Fmt("%s GetCDF(last)=%.17g", ps.c_str(), d.GetCDF(static_cast<I>(n - 1))));
  }
  c.res.Add("cdf_values_checked", n);
  c.res.Add("parameter_sets", 1);
  if (c.res.samples.size() < 3) c.res.samples.push_back("\"" + JEsc(ps) + Fmt(" worst |diff| to long-double reference %.3g", worst) + "\"");
}

template <class I>
void
C18ApproxImpl(Ctx &c, uint64_t n, double alpha, bool full, I mn);

template <class I>
void
C18Approx(Ctx &c, uint64_t n, double alpha, bool full)
{
  const I mn = C18Min<I>(n, static_cast<int>(c.case_no + 3));
  try {
    C18ApproxImpl<I>(c, n, alpha, full, mn);
  } catch (const std::exception &e) {
    Violate("C18", "ApproxZipf:constructor-or-GetCDF-threw",
            ParamStr<I>("ApproxZipf", mn, static_cast<I128>(mn) + static_cast<I128>(n) - 1, alpha) + " threw " + e.what());
  }
}

template <class I>
void
C18ApproxImpl(Ctx &c, uint64_t n, double alpha, bool full, I mn)
{
  const I mx = static_cast<I>(static_cast<I128>(mn) + static_cast<I128>(n) - 1);
  ApproxZipfDistribution<I> a{mn, mx, alpha};
  const auto ps = ParamStr<I>("ApproxZipf", mn, mx, alpha);
  if (a.GetCDF(static_cast<I>(n - 1)) != 1.0) {
    Violate("C18", "ApproxZipf:last-bin-not-exactly-one", Fmt("%s GetCDF(last)=%.17g", ps.c_str(), a.GetCDF(static_cast<I>(n - 1))));
  }
  c.res.Add("parameter_sets", 1);
  if (!full) {
    c.res.Add("cdf_values_checked", 1);
    return;
  }
  ZipfDistribution<I> d{mn, mx, alpha};
  double worst = 0;
  uint64_t worst_k = 0;
  for (uint64_t k = 0; k < n; ++k) {
    const double e = d.GetCDF(static_cast<I>(k)), g = a.GetCDF(static_cast<I>(k));
    const double err = std::fabs(e - g);
    if (err > worst) {
      worst = err;
      worst_k = k;
    }
  }
  c.res.Add("cdf_values_checked", n);
  if (n <= 100) {
    if (!(worst <= 1e-12)) {
      Violate("C18", "ApproxZipf:differs-from-exact-for-n<=100",
              Fmt("%s worst |approx-exact|=%.3g at bin %" PRIu64, ps.c_str(), worst, worst_k));
    }
    c.sigs.insert(Fmt("c18:approx<%s>:n<=100:%s", TypeName<I>(), alpha == 0 ? "a=0" : (alpha <= 1 ? "a<=1" : (alpha <= 3 ? "a<=3" : "a>3"))));
  } else if (n >= 1000 && alpha >= 0 && alpha <= 3) {
    if (!(worst <= 0.01)) {
      Violate("C18", Fmt("ApproxZipf:more-than-0.01-from-exact:%s", n <= 1100 ? "n-in-[1000,1100]" : (n <= 10000 ? "n-in-(1100,10000]" : "n>10000")),
              Fmt("%s worst |approx-exact|=%.5f at bin %" PRIu64, ps.c_str(), worst, worst_k));
    }
    c.res.Add("approx_pairs_in_bound_domain", 1);
    {
      auto &m = c.res.counters["max_approx_error_x1e6_in_bound_domain"];
      m = std::max<uint64_t>(m, static_cast<uint64_t>(worst * 1e6));
    }
    c.sigs.insert(Fmt("c18:approx<%s>:%s:%s", TypeName<I>(), n <= 1100 ? "n<=1100" : (n <= 10000 ? "n<=1e4" : (n <= 200000 ? "n<=2e5" : "n>2e5")),
                      alpha == 0 ? "a=0" : (alpha < 1 ? "a<1" : (alpha == 1 ? "a=1" : "a<=3"))));
  }
  if (c.res.samples.size() < 6 && n >= 1000) c.res.samples.push_back("\"" + JEsc(ps) + Fmt(" worst |approx-exact| %.5f at bin %" PRIu64, worst, worst_k) + "\"");
}

template <class I>
void
C18Type(Ctx &c, bool primary)
{
  Rng r;
  r.Seed(c.seed * 131 + sizeof(I) + std::is_signed_v<I>);
  // exact class
  std::vector<uint64_t> ns;
  for (uint64_t n = 1; n <= 130; ++n) ns.push_back(n);
  for (uint64_t n : {200ULL, 255ULL, 256ULL, 999ULL, 1000ULL, 1001ULL, 4096ULL, 10000ULL, 100000ULL}) ns.push_back(n);
  if (primary) {
    ns.push_back(1000000);
    ns.push_back((1ULL << 20) + 1);  // "several million" starts here: one and two more 2^20 blocks
    ns.push_back(2100000);
  }
  if (primary && c.scale >= 4) ns.push_back(4000000);
  std::vector<double> alphas = {0, 0.25, 0.5, 0.99, 1, 1.000001, 1.5, 2, 3, 5, 10, 50, 200, 1100};
  for (auto n : ns) {
    for (auto a : alphas) {
      if (n > 20000 && !(a == 0 || a == 1 || a == 3 || a == 50)) continue;
      if (n > 1000000 && n < 4000000 && !(a == 0 || a == 1)) continue;
      if (!primary && n > 300) continue;
      if (!c.Mine()) continue;
      C18Exact<I>(c, n, a);
      c.sigs.insert(Fmt("c18:exact<%s>:%s:%s", TypeName<I>(), n <= 100 ? "n<=100" : (n <= 10000 ? "n<=1e4" : "n>1e4"),
                        a == 0 ? "a=0" : (a < 1 ? "a<1" : (a == 1 ? "a=1" : (a <= 3 ? "a<=3" : "a>3")))));
    }
  }
  // approximate class vs exact
  std::vector<uint64_t> an;
  for (uint64_t n = 1; n <= 110; ++n) an.push_back(n);
  const uint64_t step = primary ? (c.scale >= 4 ? 1 : 7) : 53;
  for (uint64_t n = 1000; n <= 1210; n += step) an.push_back(n);
  for (uint64_t n : {1000ULL, 1001ULL, 1050ULL, 1099ULL, 1100ULL, 1101ULL, 1500ULL, 2000ULL, 5000ULL, 9999ULL, 10000ULL, 10001ULL, 10100ULL, 10101ULL}) an.push_back(n);
  if (primary) {
    an.push_back(100000);
    an.push_back(200000);
    if (c.scale >= 4) {
      an.push_back(1000000);
      an.push_back(4000000);  // "several million"
    }
    for (uint64_t i = 0; i < 3 * c.scale; ++i) an.push_back(r.Range(1000, 60000));
  }
  std::vector<double> aal;
  const double astep = primary ? (c.scale >= 4 ? 0.01 : 0.05) : 0.5;
  for (double a = 0; a <= 3.0000001; a += astep) aal.push_back(std::min(a, 3.0));
  for (double a : {1 - 1e-3, 1 + 1e-3, 1 - 1e-6, 1 + 1e-6, 1 - 1e-9, 1 + 1e-9, 1.0, 0.992, 0.994, 0.996, 0.998, 1.002, 1.004, 1.006, 1.008,
                   0.0005, 2.9995, 0.5005, 1.9995})
    aal.push_back(a);
  for (auto n : an) {
    for (auto a : aal) {
      if (n > 20000 && std::fmod(a * 100 + 0.5, 25.0) > 1.0 && a != 1.0 && std::fabs(a - 1.0) > 0.009) continue;
      if (!c.Mine()) continue;
      C18Approx<I>(c, n, a, true);
    }
    for (double a : {4.0, 5.0, 6.0, 7.0, 8.0, 10.0, 50.0, 200.0, 1100.0}) {
      if (!c.Mine()) continue;
      C18Approx<I>(c, n, a, n <= 100);
    }
  }
  // construction-order sweeps: one skew, changing bin counts back to back in one thread (what was constructed before
  // must not matter); one sweep is one case so that it stays in one process
  for (double a : {0.0, 0.5, 1.0, 1.25, 2.0, 3.0}) {
    if (!c.Mine()) continue;
    for (uint64_t n : {1000ULL, 49ULL, 10ULL, 1000ULL, 100ULL, 101ULL, 5000ULL, 3ULL, 99ULL, 20000ULL, 70ULL, 1ULL, 1100ULL, 100ULL}) {
      C18Approx<I>(c, n, a, true);
      C18Exact<I>(c, n, a);
    }
    for (uint64_t n : {3000ULL, 20ULL, 2999ULL, 3001ULL, 64ULL}) C18Exact<I>(c, n, a);
    c.res.Add("construction_order_sweeps", 1);
    c.sigs.insert(Fmt("c18:order-sweep<%s>", TypeName<I>()));
  }
  // last bin == 1 for large n
  for (uint64_t n : {1000000ULL, 16777217ULL, 1000000007ULL}) {
    if (n > static_cast<uint64_t>(std::numeric_limits<I>::max()) - 300) continue;
    for (double a : {0.0, 0.5, 1.0, 2.0, 3.0, 50.0}) {
      if (!c.Mine()) continue;
      C18Approx<I>(c, n, a, false);
      c.sigs.insert(Fmt("c18:approx-last-bin<%s>:n=%" PRIu64, TypeName<I>(), n));
    }
  }
}

/*##############################################################################
 * C19: purity
 *############################################################################*/
template <class I, template <class> class D>
void
C19One(Ctx &c, const char *cls, Rng &r)
{
  using Lim = std::numeric_limits<I>;
  const uint64_t n = r.Chance(1, 3) ? r.Range(1, 120) : r.Range(1, 30000);
  I128 mn128 = r.Chance(1, 2) ? 0 : (std::is_signed_v<I> ? -static_cast<I128>(r.Below(100000)) : static_cast<I128>(r.Below(100000)));
  if (r.Chance(1, 8)) mn128 = static_cast<I128>(Lim::max()) - static_cast<I128>(n) + 1;
  const I mn = static_cast<I>(mn128), mx = static_cast<I>(mn128 + static_cast<I128>(n) - 1);
  const double alpha = r.Chance(1, 4) ? 0.0 : static_cast<double>(r.Below(4000)) / 1000.0;
  const auto ps = ParamStr<I>(cls, mn, mx, alpha);
  const uint64_t seed = r.Next();
  const size_t len = 200 + r.Below(2000);
  D<I> a{mn, mx, alpha};
  // other generators constructed in between (same skew, more and fewer bins; another skew): a twin constructed after
  // them must still be the same function
  const uint64_t n_more = std::min<uint64_t>(2 * n + 7, 60000), n_less = n / 2 + 1;
  const I128 room = static_cast<I128>(Lim::max()) - mn128 + 1;
  auto other = [&](uint64_t bins, double al) {
    if (static_cast<I128>(bins) > room) bins = static_cast<uint64_t>(room);
    return D<I>{mn, static_cast<I>(mn128 + static_cast<I128>(bins) - 1), al};
  };
  D<I> more = other(n_more, alpha);
  D<I> less = other(n_less, alpha);
  D<I> skewed = other(n, alpha + 0.37);
  D<I> b{mn, mx, alpha};
  std::vector<I> ref(len);
  {
    std::mt19937_64 g{seed};
    for (auto &v : ref) v = a(g);
  }
  auto same = [&](D<I> &d, const char *what) {
    std::mt19937_64 g{seed};
    for (size_t i = 0; i < len; ++i) {
      const I v = d(g);
      if (v != ref[i]) {
        Violate("C19", Fmt("%s:%s-sequence-differs", cls, what),
                Fmt("%s seed=%" PRIu64 ": element %zu is %lld, reference generator produced %lld", ps.c_str(), seed, i,
                    static_cast<long long>(v), static_cast<long long>(ref[i])));
        return;
      }
    }
  };
  same(b, "equal-parameters");
  same(a, "second-pass-of-same-generator");  // no hidden state after len draws
  // equal parameters also means equal CDF values, bit for bit
  for (uint64_t k = 0; k < n; k += (n > 4000 ? 37 : 1)) {
    if (a.GetCDF(static_cast<I>(k)) != b.GetCDF(static_cast<I>(k))) {
      Violate("C19", Fmt("%s:equal-parameters-cdf-differs", cls),
              Fmt("%s: GetCDF(%" PRIu64 ") is %.17g for one generator and %.17g for a generator with equal parameters that was constructed after "
                  "other generators (same skew with %" PRIu64 " and %" PRIu64 " bins)",
                  ps.c_str(), k, a.GetCDF(static_cast<I>(k)), b.GetCDF(static_cast<I>(k)), n_more, n_less));
      break;
    }
  }
  // a twin constructed by a fresh thread, and twins constructed while other threads construct generators with other
  // skews at the same time
  {
    std::unique_ptr<D<I>> fresh;
    std::thread t{[&] { fresh.reset(new D<I>{mn, mx, alpha}); }};
    t.join();
    same(*fresh, "equal-parameters-constructed-by-a-fresh-thread");
    const int TC = 2 + static_cast<int>(r.Below(3));
    std::vector<std::unique_ptr<D<I>>> twins(TC);
    std::atomic<int> go{0};
    std::vector<std::thread> cth;
    for (int t2 = 0; t2 < TC; ++t2) {
      cth.emplace_back([&, t2] {
        while (go.load(std::memory_order_acquire) == 0) {
        }
        for (int rep = 0; rep < 6; ++rep) {
          D<I> noise = other(n_less + static_cast<uint64_t>(rep) * 3, alpha + 0.11 * (t2 + 1) + 0.01 * rep);
          (void)noise;
          twins[t2].reset(new D<I>{mn, mx, alpha});
        }
      });
    }
    go.store(1, std::memory_order_release);
    for (auto &t3 : cth) t3.join();
    for (int t2 = 0; t2 < TC; ++t2) same(*twins[t2], "equal-parameters-constructed-while-other-threads-construct-other-skews");
  }
  // a generator that has been sampled from (by this thread) is assigned other parameters afterwards
  {
    std::mt19937_64 g{seed ^ 0x5555};
    for (int i = 0; i < 64; ++i) {
      (void)more(g);
      (void)less(g);
      (void)skewed(g);
    }
  }
  // a copy must not depend on its source any more: the source is assigned a table of the same size / destroyed
  {
    D<I> src{mn, mx, alpha};  // (constructed from the parameters: a copy of a copy would still lead back to `a`)
    D<I> cp{src};
    const D<I> same_size = other(n, alpha + 0.37);
    src = same_size;  // copy assignment of a table of the same size: overwritten in place
    same(cp, "copy-constructed-then-source-reassigned");
    auto *heap_src = new D<I>{mn, mx, alpha};
    D<I> cp2{*heap_src};
    D<I> cp3;
    cp3 = *heap_src;
    delete heap_src;
    // (whatever the destroyed source owned is handed out again and overwritten)
    std::vector<std::vector<double>> reuse;
    for (int i = 0; i < 4; ++i) reuse.emplace_back(static_cast<size_t>(n), 0.5);
    same(cp2, "copy-constructed-then-source-destroyed");
    same(cp3, "copy-assigned-then-source-destroyed");
  }
  // another generator constructed (by copy) at the address of a destroyed one that this thread has sampled from
  {
    alignas(D<I>) unsigned char buf[sizeof(D<I>)];
    auto *g1 = new (buf) D<I>{other(n_more, alpha + 0.21)};
    {
      std::mt19937_64 g{seed ^ 0x3333};
      for (int i = 0; i < 64; ++i) (void)(*g1)(g);
    }
    g1->~D<I>();
    auto *g2 = new (buf) D<I>{a};
    same(*g2, "copy-constructed-at-the-address-of-a-destroyed-generator");
    g2->~D<I>();
  }
  // assignment over generators that had other parameters before (more bins, fewer bins, default), and twice in a row
  more = a;
  same(more, "copy-assigned-over-a-generator-with-more-bins");
  less = a;
  same(less, "copy-assigned-over-a-generator-with-fewer-bins");
  {
    D<I> dflt;
    dflt = skewed;
    dflt = a;
    same(dflt, "copy-assigned-twice-over-a-default-constructed-generator");
    D<I> big2 = other(n_more, alpha);
    skewed = big2;
    skewed = a;
    same(skewed, "copy-assigned-after-an-assignment-of-a-larger-generator");
    D<I> src{a};
    big2 = std::move(src);
    same(big2, "move-assigned-over-a-generator-with-more-bins");
  }
  D<I> copy{a};
  same(copy, "copy-constructed");
  D<I> assigned;
  assigned = a;
  same(assigned, "copy-assigned");
  D<I> tmp{a};
  D<I> moved{std::move(tmp)};
  same(moved, "move-constructed");
  D<I> tmp2{a};
  D<I> massigned;
  massigned = std::move(tmp2);
  same(massigned, "move-assigned");
  // moved-from objects are assigned to again (from the original, from a twin, by copy and by move)
  tmp = a;
  same(tmp, "copy-assigned-into-moved-from");
  tmp2 = b;
  same(tmp2, "copy-assigned-into-moved-from-twin");
  {
    D<I> src{a};
    D<I> victim{a};
    D<I> sink{std::move(victim)};
    victim = std::move(src);
    same(victim, "move-assigned-into-moved-from");
    same(sink, "move-constructed-2");
  }
  same(a, "original-after-copies-and-moves");
  // concurrent sharing of one const generator
  const D<I> &shared = a;
  const int T = 2 + static_cast<int>(r.Below(5));
  std::vector<std::thread> th;
  std::atomic<int> bad{0};
  for (int t = 0; t < T; ++t) {
    th.emplace_back([&] {
      std::mt19937_64 g{seed};
      for (size_t i = 0; i < len; ++i) {
        if (shared(g) != ref[i]) {
          bad.fetch_add(1);
          return;
        }
      }
    });
  }
  for (auto &t : th) t.join();
  if (bad.load() != 0) {
    Violate("C19", Fmt("%s:shared-const-generator-sequence-differs", cls),
            Fmt("%s: %d of %d threads sharing one const generator (own engines, same seed) did not reproduce the "
                "single-threaded sequence",
                ps.c_str(), bad.load(), T));
  }
  c.res.Add("draws", len * (8 + T));
  c.res.Add("parameter_sets", 1);
  c.res.Add("sequences_compared", 22 + T);
  c.sigs.insert(Fmt("c19:%s<%s>:%s:threads=%d", cls, TypeName<I>(), n <= 100 ? "n<=100" : "n>100", T));
  if (c.res.samples.size() < 4) c.res.samples.push_back("\"" + JEsc(ps) + Fmt(" engine seed %" PRIu64 " length %zu threads %d", seed, len, T) + "\"");
}

template <class I, template <class> class D>
void
C19Reject(Ctx &c, const char *cls, Rng &r)
{
  using Lim = std::numeric_limits<I>;
  std::vector<std::pair<I, I>> bad = {{1, 0}, {10, 9}, {Lim::max(), Lim::min()}, {Lim::max(), static_cast<I>(Lim::max() - 1)},
                                      {static_cast<I>(Lim::min() + 1), Lim::min()}, {0, Lim::min()}};
  if (std::is_signed_v<I>) {
    bad.push_back({0, -1});
    bad.push_back({-5, -6});
    bad.push_back({100, -100});
  }
  for (int i = 0; i < 20; ++i) {
    const I a = static_cast<I>(r.Next()), b = static_cast<I>(r.Next());
    if (a == b) continue;
    bad.push_back({std::max(a, b), std::min(a, b)});
  }
  for (auto [mn, mx] : bad) {
    if (!(mx < mn)) continue;
#if VERIF_ASAN
    // The constructors compute max - min + 1 in IntType before they reject the pair; for pairs whose difference does
    // not fit, the UBSan build would report that arithmetic although the construction is rejected as required.  The
    // property is about the rejection (checked for these pairs by the plain build), not about that arithmetic.
    {
      const I128 diff = static_cast<I128>(mx) - static_cast<I128>(mn) + 1;
      if (diff < static_cast<I128>(Lim::min()) || diff > static_cast<I128>(Lim::max()) || diff - 1 < static_cast<I128>(Lim::min())) continue;
    }
#endif
    for (double alpha : {0.0, 1.0}) {
      bool threw = false;
      try {
        D<I> d{mn, mx, alpha};
        (void)d;
      } catch (const std::exception &) {
        threw = true;
      }
      c.res.Add("rejections_checked", 1);
      if (!threw) {
        Violate("C19", Fmt("%s:max<min-not-rejected", cls),
                Fmt("%s<%s>(min=%lld,max=%lld) constructed without an exception", cls, TypeName<I>(), static_cast<long long>(mn),
                    static_cast<long long>(mx)));
      }
    }
  }
  c.sigs.insert(Fmt("c19:reject:%s<%s>", cls, TypeName<I>()));
}

template <class I>
void
C19Type(Ctx &c)
{
  Rng r;
  r.Seed(c.seed * 977 + sizeof(I) * 3 + std::is_signed_v<I>);
  for (uint64_t i = 0; i < 12 * c.scale; ++i) {
    const bool mine = c.Mine();
    Rng rr = r;
    r.Next();
    r.Next();
    if (!mine) continue;
    rr.Seed(rr.Next() + i);
    try {
      C19One<I, ZipfDistribution>(c, "Zipf", rr);
      C19One<I, ApproxZipfDistribution>(c, "ApproxZipf", rr);
    } catch (const std::exception &e) {
      Violate("C19", "exception-on-admissible-parameters", Fmt("type %s: %s", TypeName<I>(), e.what()));
    }
  }
  if (c.Mine()) {
    C19Reject<I, ZipfDistribution>(c, "Zipf", r);
    C19Reject<I, ApproxZipfDistribution>(c, "ApproxZipf", r);
  }
}

}  // namespace vf

namespace vf
{
// The very first constructions of the process are made by several threads at the same instant (whatever the library
// initialises lazily is initialised under contention); afterwards the same parameters are constructed again by one
// thread and every CDF value must be identical, bit for bit.
template <class I>
void
FirstConstructionRace(Ctx &c, const char *prop)
{
  constexpr int kT = 6;
  const uint64_t ns[kT] = {1000, 150, 100000, 1001, 5000, 101};
  const double alphas[kT] = {2.0, 0.5, 1.0, 3.0, 0.0, 1.5};
  std::vector<double> app[kT], exa[kT];
  std::atomic<int> gate{0};
  std::vector<std::thread> th;
  for (int t = 0; t < kT; ++t) {
    th.emplace_back([&, t] {
      while (gate.load(std::memory_order_acquire) == 0) {
      }
      ApproxZipfDistribution<I> a{0, static_cast<I>(ns[t] - 1), alphas[t]};
      ZipfDistribution<I> e{0, static_cast<I>(std::min<uint64_t>(ns[t], 2000) - 1), alphas[t]};
      for (uint64_t k = 0; k < std::min<uint64_t>(ns[t], 400); ++k) app[t].push_back(a.GetCDF(static_cast<I>(k)));
      for (uint64_t k = 0; k < std::min<uint64_t>(ns[t], 400); ++k) exa[t].push_back(e.GetCDF(static_cast<I>(k)));
    });
  }
  gate.store(1, std::memory_order_release);
  for (auto &t : th) t.join();
  for (int t = 0; t < kT; ++t) {
    ApproxZipfDistribution<I> a{0, static_cast<I>(ns[t] - 1), alphas[t]};
    ZipfDistribution<I> e{0, static_cast<I>(std::min<uint64_t>(ns[t], 2000) - 1), alphas[t]};
    for (uint64_t k = 0; k < app[t].size(); ++k) {
      if (app[t][k] != a.GetCDF(static_cast<I>(k)) || exa[t][k] != e.GetCDF(static_cast<I>(k))) {
        const bool ap = app[t][k] != a.GetCDF(static_cast<I>(k));
        Violate(prop, Fmt("%s:constructed-first-in-the-process-by-several-threads-at-once-differs", ap ? "ApproxZipf" : "Zipf"),
                Fmt("%s<%s>(min=0,max=%" PRIu64 ",alpha=%g): GetCDF(%" PRIu64 ") was %.17g for the generator one of %d threads constructed as the first "
                    "generators of the process, and is %.17g for an equal generator constructed afterwards",
                    ap ? "ApproxZipf" : "Zipf", TypeName<I>(), ns[t] - 1, alphas[t], k, ap ? app[t][k] : exa[t][k], kT,
                    ap ? a.GetCDF(static_cast<I>(k)) : e.GetCDF(static_cast<I>(k))));
        break;
      }
    }
  }
  c.res.Add("first_construction_races", 1);
  c.sigs.insert("first-construction-race");
}
}  // namespace vf

int
main(int argc, char **argv)
{
  using namespace vf;
  Args a{argc, argv};
  Ctx c;
  c.seed = a.U("seed", 1);
  c.part = a.U("part", 0);
  c.of = a.U("of", 1);
  c.scale = a.U("scale", 1);
  const auto mode = a.S("mode", "c06");
  const auto t0 = NowNs();
  if (mode == "c18" || mode == "c19") {
    // (the integer type of the racing first constructions changes with the shard)
    const char *prop = mode == "c18" ? "C18" : "C19";
    switch (c.part % 4) {
      case 0: FirstConstructionRace<uint64_t>(c, prop); break;
      case 1: FirstConstructionRace<int32_t>(c, prop); break;
      case 2: FirstConstructionRace<uint32_t>(c, prop); break;
      default: FirstConstructionRace<int64_t>(c, prop); break;
    }
  }
  if (mode == "c06") {
    C06Type<uint32_t>(c);
    C06Type<uint64_t>(c);
    C06Type<int32_t>(c);
    C06Type<int64_t>(c);
    c.res.counters["evaluations"] = c.res.counters["draws"];
  } else if (mode == "c18") {
    C18Type<uint64_t>(c, true);
    C18Type<int32_t>(c, false);
    C18Type<uint32_t>(c, false);
    C18Type<int64_t>(c, false);
    c.res.counters["evaluations"] = c.res.counters["cdf_values_checked"];
  } else if (mode == "c19") {
    C19Type<uint32_t>(c);
    C19Type<uint64_t>(c);
    C19Type<int32_t>(c);
    C19Type<int64_t>(c);
    c.res.counters["evaluations"] = c.res.counters["draws"];
  } else {
    fprintf(stderr, "unknown mode\n");
    return 2;
  }
#if VERIF_TSAN
  c.res.Add("tsan_reports", g_tsan_reports.load());
  if (g_tsan_reports.load() != 0) {
    Violate("C19", "data-race-while-sharing-a-const-generator",
            Fmt("ThreadSanitizer reported %" PRIu64 " data race(s) in a run whose only shared object is the const generator",
                g_tsan_reports.load()));
  }
#endif
  for (auto &s : c.sigs) c.res.signatures.push_back(s);
  c.res.Add("wall_ms", (NowNs() - t0) / 1000000);
  EmitResult(c.res, "ok");
  return 0;
}
