// Common runtime-monitoring support: PRNG, ticket clock, chaos points (the
// implementation of the hooks compiled into /repo with
// -DDBGROUP_CPP_UTILITY_VERIF), violation log, JSON result writer, watchdog
// helpers.  Header-only; exactly one TU defines VERIF_MAIN_TU before including.
#ifndef VERIF_VCOMMON_HPP_
#define VERIF_VCOMMON_HPP_

#include <pthread.h>
#include <sched.h>
#include <signal.h>
#include <ucontext.h>
#include <time.h>
#include <unistd.h>

#include <atomic>
#include <cinttypes>
#include <cstdarg>
#include <cstdint>
#include <cstdio>
#include <cstdlib>
#include <cstring>
#include <map>
#include <mutex>
#include <string>
#include <vector>

#include "dbgroup/verif/hooks.hpp"

#if defined(__SANITIZE_THREAD__)
#define VERIF_TSAN 1
#elif defined(__has_feature)
#if __has_feature(thread_sanitizer)
#define VERIF_TSAN 1
#endif
#endif
#if defined(__SANITIZE_ADDRESS__)
#define VERIF_ASAN 1
#elif defined(__has_feature)
#if __has_feature(address_sanitizer)
#define VERIF_ASAN 1
#endif
#endif
#ifndef VERIF_TSAN
#define VERIF_TSAN 0
#endif
#ifndef VERIF_ASAN
#define VERIF_ASAN 0
#endif

namespace vf
{
/*------------------------------------------------------------------------------
 * memory orders of the monitor's own state: in TSan builds the monitor must not
 * add happens-before edges that could mask a race in the code under test, so
 * everything is relaxed there; elsewhere the monitor uses seq_cst.
 *----------------------------------------------------------------------------*/
#if VERIF_TSAN
constexpr std::memory_order kMo = std::memory_order_relaxed;
#else
constexpr std::memory_order kMo = std::memory_order_seq_cst;
#endif
constexpr std::memory_order kRlx = std::memory_order_relaxed;

/*------------------------------------------------------------------------------
 * PRNG (splitmix64 seeding + xoshiro256**), trivially destructible
 *----------------------------------------------------------------------------*/
struct Rng {
  uint64_t s[4];
  static uint64_t
  SplitMix(uint64_t &x)
  {
    uint64_t z = (x += 0x9e3779b97f4a7c15ULL);
    z = (z ^ (z >> 30)) * 0xbf58476d1ce4e5b9ULL;
    z = (z ^ (z >> 27)) * 0x94d049bb133111ebULL;
    return z ^ (z >> 31);
  }
  void
  Seed(uint64_t seed)
  {
    for (auto &v : s) v = SplitMix(seed);
  }
  static uint64_t
  Rotl(uint64_t x, int k)
  {
    return (x << k) | (x >> (64 - k));
  }
  uint64_t
  Next()
  {
    const uint64_t result = Rotl(s[1] * 5, 7) * 9;
    const uint64_t t = s[1] << 17;
    s[2] ^= s[0];
    s[3] ^= s[1];
    s[1] ^= s[2];
    s[0] ^= s[3];
    s[2] ^= t;
    s[3] = Rotl(s[3], 45);
    return result;
  }
  // uniform in [0, n)
  uint64_t
  Below(uint64_t n)
  {
    return n ? Next() % n : 0;
  }
  // uniform in [lo, hi]
  uint64_t
  Range(uint64_t lo, uint64_t hi)
  {
    return lo + Below(hi - lo + 1);
  }
  bool
  Chance(uint32_t num, uint32_t den)
  {
    return Below(den) < num;
  }
};

inline uint64_t
NowNs()
{
  timespec ts{};
  clock_gettime(CLOCK_MONOTONIC, &ts);
  return static_cast<uint64_t>(ts.tv_sec) * 1000000000ULL + ts.tv_nsec;
}

inline uint64_t
CpuNs()
{
  timespec ts{};
  clock_gettime(CLOCK_PROCESS_CPUTIME_ID, &ts);
  return static_cast<uint64_t>(ts.tv_sec) * 1000000000ULL + ts.tv_nsec;
}

inline void
SleepNs(uint64_t ns)
{
  timespec ts{static_cast<time_t>(ns / 1000000000ULL), static_cast<long>(ns % 1000000000ULL)};
  nanosleep(&ts, nullptr);
}

inline void
SpinNs(uint64_t ns)
{
  const auto end = NowNs() + ns;
  while (NowNs() < end) {
  }
}

/*------------------------------------------------------------------------------
 * ticket clock
 *----------------------------------------------------------------------------*/
extern std::atomic<uint64_t> g_ticket;
inline uint64_t
Tick()
{
  return g_ticket.fetch_add(1, kMo) + 1;
}

/*------------------------------------------------------------------------------
 * JSON helper (tiny)
 *----------------------------------------------------------------------------*/
inline std::string
JEsc(const std::string &s)
{
  std::string o;
  for (char c : s) {
    switch (c) {
      case '"': o += "\\\""; break;
      case '\\': o += "\\\\"; break;
      case '\n': o += "\\n"; break;
      case '\t': o += "\\t"; break;
      default:
        if (static_cast<unsigned char>(c) < 0x20) {
          char b[8];
          snprintf(b, sizeof b, "\\u%04x", c);
          o += b;
        } else {
          o += c;
        }
    }
  }
  return o;
}

inline std::string
Fmt(const char *fmt, ...)
{
  char buf[4096];
  va_list ap;
  va_start(ap, fmt);
  vsnprintf(buf, sizeof buf, fmt, ap);
  va_end(ap);
  return buf;
}

/*------------------------------------------------------------------------------
 * violation / observation log
 *----------------------------------------------------------------------------*/
struct Violation {
  std::string prop;    // property id
  std::string key;     // finding key (call site / history class)
  std::string detail;  // witness
};

struct Log {
  std::mutex mtx;
  std::vector<Violation> violations;
  std::map<std::string, uint64_t> viol_count;  // by prop|key
  std::map<std::string, uint64_t> observations;
  std::map<std::string, std::string> obs_sample;
  std::atomic<uint64_t> n_viol{0};
};
extern Log g_log;

inline void
Violate(const std::string &prop, const std::string &key, const std::string &detail)
{
  g_log.n_viol.fetch_add(1, kRlx);
  std::lock_guard<std::mutex> g{g_log.mtx};
  auto &c = g_log.viol_count[prop + "|" + key];
  if (++c <= 3 && g_log.violations.size() < 64) g_log.violations.push_back({prop, key, detail});
}

inline void
Observe(const std::string &what, const std::string &sample = "")
{
  std::lock_guard<std::mutex> g{g_log.mtx};
  if (++g_log.observations[what] == 1 && !sample.empty()) g_log.obs_sample[what] = sample;
}

/*------------------------------------------------------------------------------
 * chaos points
 *----------------------------------------------------------------------------*/
constexpr int kMaxPoint = 64;
constexpr int kMaxOpKind = 48;

struct ChaosPlan {
  // probability (out of 65536) that a hit of point p delays
  uint32_t prob[kMaxPoint];
  // delay-kind thresholds out of 256: [0,yield) yield, [yield,spin) spin, [spin,sleep) short
  // sleep, rest long sleep
  uint32_t th_yield, th_spin, th_sleep;
  uint64_t spin_max_ns, sleep_min_ns, sleep_max_ns, long_min_ns, long_max_ns;
};
extern ChaosPlan g_plan;
extern std::atomic<uint64_t> g_ops_done;  // completed foreign operations (progress counter)

// per-thread chaos state: POD so that it is usable during thread-exit TLS destruction
struct ChaosTls {
  bool enabled;
  int tid;     // harness thread index (-1: not a worker)
  int cur_op;  // operation kind the thread is currently executing (engine-defined)
  Rng rng;
  uint64_t hits[kMaxPoint];
  uint64_t delays[kMaxPoint];
  uint64_t overlaps[kMaxPoint];        // delays during which foreign operations completed
  uint64_t sig[kMaxPoint];             // bitset over cur_op: (point, op) pairs that overlapped
  uint32_t prob_div;                   // this thread's delay probabilities are divided by prob_div (0 = 1)
  int preempt_slot;                    // slot in the preemption table (+1; 0 = not registered)
  uint64_t last_arrival;               // engine use
  const void *last_obj;
};
extern thread_local ChaosTls t_chaos;

// engine callback, called first at every point (arrival stamps, poisoning, ...)
using PointCallback = void (*)(int id, const void *obj);
extern PointCallback g_point_cb;
extern PointCallback g_point_post_cb;  // called last at every point, after any injected delay

// aggregated at thread end
struct ChaosTotals {
  std::mutex mtx;
  uint64_t hits[kMaxPoint]{};
  uint64_t delays[kMaxPoint]{};
  uint64_t overlaps[kMaxPoint]{};
  uint64_t sig[kMaxPoint]{};
};
extern ChaosTotals g_chaos_totals;

/*------------------------------------------------------------------------------
 * signal-based preemption: a helper thread sends SIGUSR1 to random registered threads and the handler busy-waits, so
 * a thread can be stalled between ANY two instructions (not only at the hook points), e.g. between a load and the
 * CAS that follows it.  Plain builds only.
 *----------------------------------------------------------------------------*/
constexpr int kPreemptSlots = 128;
struct PreemptTable {
  std::atomic<int> lock{0};
  pthread_t th[kPreemptSlots];
  bool used[kPreemptSlots];
};
extern PreemptTable g_preempt;
extern std::atomic<uint64_t> g_preempt_stall_ns;
extern std::atomic<uint64_t> g_preempt_sent;
extern std::atomic<uint64_t> g_preempt_handled;
extern std::atomic<bool> g_preempt_run;

inline void
PreemptLock()
{
  int z = 0;
  while (!g_preempt.lock.compare_exchange_weak(z, 1, std::memory_order_acquire)) {
    z = 0;
    sched_yield();
  }
}
inline void
PreemptUnlock()
{
  g_preempt.lock.store(0, std::memory_order_release);
}
void PreemptRegister();
void PreemptUnregister();
void PreempterStart(uint64_t seed, uint64_t gap_min_us, uint64_t gap_max_us, uint64_t stall_min_us, uint64_t stall_max_us);
void PreempterStop();

// Instruction stepper (plain x86-64 builds): arms the CPU's trap flag so that the calling thread takes a SIGTRAP after
// every instruction; after `k` instructions the handler busy-waits for `stall_ns` (a preemption placed at exactly that
// instruction boundary) and stops stepping.  Arm / disarm from ordinary code or from a hook callback.
#if !VERIF_TSAN && !VERIF_ASAN && defined(__x86_64__)
#define VERIF_STEPPER 1
#else
#define VERIF_STEPPER 0
#endif
void StepperInstall();
void StepArm(uint64_t k, uint64_t stall_ns);
void StepDisarm();
extern thread_local volatile uint64_t tl_step_left;
extern thread_local uint64_t tl_step_stall_ns;
extern std::atomic<uint64_t> g_step_stalls;  // stalls delivered
extern std::atomic<uint64_t> g_step_traps;   // instructions single-stepped

inline void
ChaosThreadBegin(int tid, uint64_t seed)
{
  auto &t = t_chaos;
  memset(&t, 0, sizeof t);
  t.tid = tid;
  t.rng.Seed(seed * 0x9E3779B97F4A7C15ULL + static_cast<uint64_t>(tid) * 7919 + 17);
  t.enabled = true;
  if (g_preempt_run.load(kRlx)) PreemptRegister();
}

inline void
ChaosThreadEnd()
{
  auto &t = t_chaos;
  t.enabled = false;
  PreemptUnregister();
  std::lock_guard<std::mutex> g{g_chaos_totals.mtx};
  for (int i = 0; i < kMaxPoint; ++i) {
    g_chaos_totals.hits[i] += t.hits[i];
    g_chaos_totals.delays[i] += t.delays[i];
    g_chaos_totals.overlaps[i] += t.overlaps[i];
    g_chaos_totals.sig[i] |= t.sig[i];
    t.hits[i] = t.delays[i] = t.overlaps[i] = t.sig[i] = 0;
  }
}

// Build a plan: a few "hot" points with a high delay probability, low background elsewhere.
inline void
MakePlan(Rng &r, const std::vector<int> &candidates, uint32_t intensity /*0..3*/)
{
  memset(&g_plan, 0, sizeof g_plan);
  const uint32_t bg = intensity == 0 ? 0 : (intensity == 1 ? 80 : (intensity == 2 ? 400 : 1500));
  for (int p : candidates) g_plan.prob[p] = bg;
  if (intensity > 0 && !candidates.empty()) {
    const int hot = 1 + static_cast<int>(r.Below(3));
    for (int i = 0; i < hot; ++i) {
      const int p = candidates[r.Below(candidates.size())];
      g_plan.prob[p] = static_cast<uint32_t>(r.Range(2000, 30000));
    }
  }
  g_plan.th_yield = 60;
  g_plan.th_spin = 150;
  g_plan.th_sleep = 250;
  g_plan.spin_max_ns = 20000;
  g_plan.sleep_min_ns = 50000;
  g_plan.sleep_max_ns = 500000;
  g_plan.long_min_ns = 1000000;
  g_plan.long_max_ns = 3000000;
}

inline void
ChaosDelay(int id)
{
  auto &t = t_chaos;
  ++t.delays[id];
  const auto before = g_ops_done.load(kRlx);
  const auto k = t.rng.Below(256);
  if (k < g_plan.th_yield) {
    sched_yield();
  } else if (k < g_plan.th_spin) {
    SpinNs(t.rng.Range(100, g_plan.spin_max_ns));
  } else if (k < g_plan.th_sleep) {
    SleepNs(t.rng.Range(g_plan.sleep_min_ns, g_plan.sleep_max_ns));
  } else {
    SleepNs(t.rng.Range(g_plan.long_min_ns, g_plan.long_max_ns));
  }
  if (g_ops_done.load(kRlx) != before) {
    ++t.overlaps[id];
    if (t.cur_op >= 0 && t.cur_op < 64) t.sig[id] |= (1ULL << t.cur_op);
  }
}

// A chaos point in harness (client) code, e.g. inside a critical section.
inline void
ClientPoint(int id)
{
  auto &t = t_chaos;
  if (!t.enabled) return;
  ++t.hits[id];
  if ((t.rng.Next() & 0xFFFF) * (t.prob_div ? t.prob_div : 1U) < g_plan.prob[id]) ChaosDelay(id);
}

/*------------------------------------------------------------------------------
 * result writer
 *----------------------------------------------------------------------------*/
struct Result {
  std::map<std::string, uint64_t> counters;
  std::map<std::string, std::string> strings;
  std::vector<std::string> samples;  // already JSON
  std::vector<std::string> signatures;
  void
  Add(const std::string &k, uint64_t v)
  {
    counters[k] += v;
  }
};

inline void
EmitResult(const Result &res, const char *status)
{
  std::string o = "RESULT {";
  o += "\"status\":\"" + std::string(status) + "\",\"counters\":{";
  bool first = true;
  for (auto &[k, v] : res.counters) {
    o += Fmt("%s\"%s\":%" PRIu64, first ? "" : ",", JEsc(k).c_str(), v);
    first = false;
  }
  if (g_preempt_handled.load(kRlx) != 0 && res.counters.find("signal_preemptions_delivered") == res.counters.end()) {
    o += Fmt("%s\"signal_preemptions_delivered\":%" PRIu64, first ? "" : ",", g_preempt_handled.load(kRlx));
  }
  o += "},\"strings\":{";
  first = true;
  for (auto &[k, v] : res.strings) {
    o += Fmt("%s\"%s\":\"%s\"", first ? "" : ",", JEsc(k).c_str(), JEsc(v).c_str());
    first = false;
  }
  o += "},\"chaos\":{";
  first = true;
  {
    std::lock_guard<std::mutex> g{g_chaos_totals.mtx};
    for (int i = 0; i < kMaxPoint; ++i) {
      if (!g_chaos_totals.hits[i]) continue;
      o += Fmt("%s\"%d\":[%" PRIu64 ",%" PRIu64 ",%" PRIu64 ",%" PRIu64 "]", first ? "" : ",", i,
               g_chaos_totals.hits[i], g_chaos_totals.delays[i], g_chaos_totals.overlaps[i],
               g_chaos_totals.sig[i]);
      first = false;
    }
  }
  o += "},\"samples\":[";
  first = true;
  for (auto &s : res.samples) {
    o += (first ? "" : ",") + s;
    first = false;
  }
  o += "],\"signatures\":[";
  first = true;
  for (auto &s : res.signatures) {
    o += std::string(first ? "" : ",") + "\"" + JEsc(s) + "\"";
    first = false;
  }
  o += "],\"violations\":[";
  {
    std::lock_guard<std::mutex> g{g_log.mtx};
    first = true;
    for (auto &v : g_log.violations) {
      o += Fmt("%s{\"prop\":\"%s\",\"key\":\"%s\",\"detail\":\"%s\",\"count\":%" PRIu64 "}",
               first ? "" : ",", JEsc(v.prop).c_str(), JEsc(v.key).c_str(),
               JEsc(v.detail).c_str(), g_log.viol_count[v.prop + "|" + v.key]);
      first = false;
    }
    o += "],\"observations\":{";
    first = true;
    for (auto &[k, v] : g_log.observations) {
      o += Fmt("%s\"%s\":{\"count\":%" PRIu64 ",\"sample\":\"%s\"}", first ? "" : ",",
               JEsc(k).c_str(), v, JEsc(g_log.obs_sample[k]).c_str());
      first = false;
    }
  }
  o += "}}\n";
  fputs(o.c_str(), stdout);
  fflush(stdout);
}

/*------------------------------------------------------------------------------
 * argument parsing: key=value pairs
 *----------------------------------------------------------------------------*/
struct Args {
  std::map<std::string, std::string> kv;
  Args(int argc, char **argv)
  {
    for (int i = 1; i < argc; ++i) {
      std::string a = argv[i];
      auto p = a.find('=');
      if (p == std::string::npos) {
        kv[a] = "1";
      } else {
        kv[a.substr(0, p)] = a.substr(p + 1);
      }
    }
  }
  uint64_t
  U(const std::string &k, uint64_t d) const
  {
    auto it = kv.find(k);
    return it == kv.end() ? d : strtoull(it->second.c_str(), nullptr, 0);
  }
  std::string
  S(const std::string &k, const std::string &d) const
  {
    auto it = kv.find(k);
    return it == kv.end() ? d : it->second;
  }
};

}  // namespace vf

/*##############################################################################
 * definitions (one TU)
 *############################################################################*/
#ifdef VERIF_MAIN_TU
namespace vf
{
std::atomic<uint64_t> g_ticket{0};
Log g_log;
ChaosPlan g_plan{};
std::atomic<uint64_t> g_ops_done{0};
thread_local ChaosTls t_chaos{};
PointCallback g_point_cb = nullptr;
PointCallback g_point_post_cb = nullptr;
ChaosTotals g_chaos_totals;
PreemptTable g_preempt;
std::atomic<uint64_t> g_preempt_stall_ns{0};
std::atomic<uint64_t> g_preempt_sent{0};
std::atomic<uint64_t> g_preempt_handled{0};
std::atomic<bool> g_preempt_run{false};
static pthread_t g_preempter_thread;
static uint64_t g_preempt_cfg[5];

thread_local volatile uint64_t tl_step_left = 0;
thread_local uint64_t tl_step_stall_ns = 0;
std::atomic<uint64_t> g_step_stalls{0};
std::atomic<uint64_t> g_step_traps{0};
#if VERIF_STEPPER
static void
StepTrapHandler(int, siginfo_t *, void *ucv)
{
  auto *uc = static_cast<ucontext_t *>(ucv);
  g_step_traps.fetch_add(1, kRlx);
  if (tl_step_left == 0 || --tl_step_left == 0) {
    if (tl_step_stall_ns != 0) {
      g_step_stalls.fetch_add(1, kRlx);
      const auto end = NowNs() + tl_step_stall_ns;
      while (NowNs() < end) {
      }
      tl_step_stall_ns = 0;
    }
    uc->uc_mcontext.gregs[REG_EFL] &= ~0x100LL;  // stop stepping
  }
}
void
StepperInstall()
{
  struct sigaction sa {};
  sa.sa_sigaction = &StepTrapHandler;
  sa.sa_flags = SA_SIGINFO | SA_RESTART;
  sigemptyset(&sa.sa_mask);
  sigaction(SIGTRAP, &sa, nullptr);
}
void
StepArm(uint64_t k, uint64_t stall_ns)
{
  tl_step_stall_ns = stall_ns;
  tl_step_left = k + 1;
  // (skip the red zone of the calling function before touching the stack)
  asm volatile("lea -128(%%rsp), %%rsp\n\tpushfq\n\torq $0x100, (%%rsp)\n\tpopfq\n\tlea 128(%%rsp), %%rsp" ::: "memory", "cc");
}
void
StepDisarm()
{
  asm volatile("lea -128(%%rsp), %%rsp\n\tpushfq\n\tandq $-257, (%%rsp)\n\tpopfq\n\tlea 128(%%rsp), %%rsp" ::: "memory", "cc");
  tl_step_left = 0;
  tl_step_stall_ns = 0;
}
#else
void
StepperInstall()
{
}
void
StepArm(uint64_t, uint64_t)
{
}
void
StepDisarm()
{
}
#endif

void
PreemptRegister()
{
  if (t_chaos.preempt_slot != 0) return;
  PreemptLock();
  for (int i = 0; i < kPreemptSlots; ++i) {
    if (!g_preempt.used[i]) {
      g_preempt.used[i] = true;
      g_preempt.th[i] = pthread_self();
      t_chaos.preempt_slot = i + 1;
      break;
    }
  }
  PreemptUnlock();
}

void
PreemptUnregister()
{
  if (t_chaos.preempt_slot == 0) return;
  PreemptLock();
  g_preempt.used[t_chaos.preempt_slot - 1] = false;
  PreemptUnlock();
  t_chaos.preempt_slot = 0;
}

static void
PreemptHandler(int)
{
  const auto ns = g_preempt_stall_ns.load(kRlx);
  g_preempt_handled.fetch_add(1, kRlx);
  const auto end = NowNs() + ns;
  while (NowNs() < end) {
  }
}

static void *
PreempterMain(void *)
{
  Rng r;
  r.Seed(g_preempt_cfg[0] * 77 + 5);
  while (g_preempt_run.load(kRlx)) {
    SleepNs(r.Range(g_preempt_cfg[1], g_preempt_cfg[2]) * 1000);
    PreemptLock();
    int cand[kPreemptSlots];
    int n = 0;
    for (int i = 0; i < kPreemptSlots; ++i) {
      if (g_preempt.used[i]) cand[n++] = i;
    }
    if (n > 0) {
      g_preempt_stall_ns.store(r.Range(g_preempt_cfg[3], g_preempt_cfg[4]) * 1000, kRlx);
      pthread_kill(g_preempt.th[cand[r.Below(n)]], SIGUSR1);
      g_preempt_sent.fetch_add(1, kRlx);
    }
    PreemptUnlock();
  }
  return nullptr;
}

void
PreempterStart(uint64_t seed, uint64_t gap_min_us, uint64_t gap_max_us, uint64_t stall_min_us, uint64_t stall_max_us)
{
#if !VERIF_TSAN && !VERIF_ASAN
  struct sigaction sa {};
  sa.sa_handler = &PreemptHandler;
  sa.sa_flags = SA_RESTART;
  sigaction(SIGUSR1, &sa, nullptr);
  g_preempt_cfg[0] = seed;
  g_preempt_cfg[1] = gap_min_us;
  g_preempt_cfg[2] = gap_max_us;
  g_preempt_cfg[3] = stall_min_us;
  g_preempt_cfg[4] = stall_max_us;
  g_preempt_run.store(true);
  pthread_create(&g_preempter_thread, nullptr, &PreempterMain, nullptr);
#else
  (void)seed;
  (void)gap_min_us;
  (void)gap_max_us;
  (void)stall_min_us;
  (void)stall_max_us;
#endif
}

void
PreempterStop()
{
  if (!g_preempt_run.load()) return;
  g_preempt_run.store(false);
  pthread_join(g_preempter_thread, nullptr);
}
}  // namespace vf

namespace dbgroup::verif
{
void
Point(int id, const void *obj) noexcept
{
  auto &t = vf::t_chaos;
  if (vf::g_point_cb != nullptr) vf::g_point_cb(id, obj);
  if (t.enabled && id >= 0 && id < vf::kMaxPoint) {
    ++t.hits[id];
    const auto p = vf::g_plan.prob[id];
    if (p != 0 && (t.rng.Next() & 0xFFFF) * (t.prob_div ? t.prob_div : 1U) < p) vf::ChaosDelay(id);
  }
  if (vf::g_point_post_cb != nullptr) vf::g_point_post_cb(id, obj);  // last thing before the library code continues
}
}  // namespace dbgroup::verif
#endif  // VERIF_MAIN_TU

#endif  // VERIF_VCOMMON_HPP_
