// E3: monitors for IDManager and EpochManager.  Built once per capacity
// (-DDBGROUP_MAX_THREAD_NUM=N).
//
// usage: thr_mon mode=id|epoch|model seed=S scale=K [sub=A|B|C] [variant=...]
#define VERIF_MAIN_TU
#include <pthread.h>
#include <signal.h>
#include <sys/wait.h>
#include <unistd.h>

#include <algorithm>
#include <memory>
#include <set>
#include <thread>

#include "../common/vcommon.hpp"
#include "dbgroup/thread/epoch_manager.hpp"
#include "dbgroup/thread/id_manager.hpp"

#if VERIF_ASAN
#include <sanitizer/asan_interface.h>
#endif

namespace vf
{
using ::dbgroup::thread::EpochGuard;
using ::dbgroup::thread::EpochManager;
using ::dbgroup::thread::IDManager;
constexpr size_t kN = ::dbgroup::thread::kMaxThreadNum;

/*##############################################################################
 * allocation accounting (C20, C17 classification)
 *############################################################################*/
std::atomic<int64_t> g_aligned_live{0};   // live over-aligned allocations (= ProtectedNode)
// per-manager attribution for the sequential (model) histories: the controller sets tl_cur_mgr around the
// constructor / ForwardGlobalEpoch / destructor of a manager; list nodes are only allocated and freed inside those
thread_local int tl_cur_mgr = -1;
constexpr int kMgrTab = 256;
std::atomic<uint64_t> g_mgr_node_addr[kMgrTab];
std::atomic<int> g_mgr_node_owner[kMgrTab];
std::atomic<int64_t> g_mgr_nodes[2];
std::atomic<uint64_t> g_aligned_total{0};
std::atomic<uint64_t> g_aligned_frees{0};  // list nodes handed to operator delete so far (counted before the memory is released)
std::atomic<int64_t> g_bytes_live{0};     // live bytes of ordinary allocations made while tracking
thread_local int tl_track_bytes = 0;
std::atomic<bool> g_track_all{false};

// recently seen node ranges (for ASan report classification): ring of [lo,hi)
constexpr int kNodeRing = 4096;
std::atomic<uint64_t> g_node_lo[kNodeRing];
std::atomic<uint64_t> g_node_sz[kNodeRing];
std::atomic<uint64_t> g_node_ring_pos{0};

inline bool
InNodeRange(uint64_t a)
{
  for (int i = 0; i < kNodeRing; ++i) {
    const auto lo = g_node_lo[i].load(kRlx);
    if (lo != 0 && a >= lo && a < lo + g_node_sz[i].load(kRlx)) return true;
  }
  return false;
}
}  // namespace vf

void *
operator new(std::size_t n, std::align_val_t al)
{
  void *p = nullptr;
  if (posix_memalign(&p, static_cast<size_t>(al), n ? n : 1) != 0) abort();
  vf::g_aligned_live.fetch_add(1, vf::kRlx);
  vf::g_aligned_total.fetch_add(1, vf::kRlx);
  if (vf::tl_cur_mgr >= 0) {
    for (int k = 0; k < vf::kMgrTab; ++k) {
      uint64_t z = 0;
      if (vf::g_mgr_node_addr[k].compare_exchange_strong(z, reinterpret_cast<uint64_t>(p), vf::kRlx)) {
        vf::g_mgr_node_owner[k].store(vf::tl_cur_mgr, vf::kRlx);
        vf::g_mgr_nodes[vf::tl_cur_mgr].fetch_add(1, vf::kRlx);
        break;
      }
    }
  }
  const auto i = vf::g_node_ring_pos.fetch_add(1, vf::kRlx) % vf::kNodeRing;
  vf::g_node_sz[i].store(n, vf::kRlx);
  vf::g_node_lo[i].store(reinterpret_cast<uint64_t>(p), vf::kRlx);
  return p;
}
namespace vf
{
inline void
MgrNodeFreed(void *p)
{
  for (int k = 0; k < kMgrTab; ++k) {
    if (g_mgr_node_addr[k].load(kRlx) == reinterpret_cast<uint64_t>(p)) {
      g_mgr_nodes[g_mgr_node_owner[k].load(kRlx)].fetch_sub(1, kRlx);
      g_mgr_node_addr[k].store(0, kRlx);
      return;
    }
  }
}
}  // namespace vf
void
operator delete(void *p, std::align_val_t) noexcept
{
  if (p == nullptr) return;
  vf::g_aligned_frees.fetch_add(1, std::memory_order_seq_cst);
  vf::g_aligned_live.fetch_sub(1, vf::kRlx);
  vf::MgrNodeFreed(p);
  free(p);
}
void
operator delete(void *p, std::size_t, std::align_val_t) noexcept
{
  if (p == nullptr) return;
  vf::g_aligned_frees.fetch_add(1, std::memory_order_seq_cst);
  vf::g_aligned_live.fetch_sub(1, vf::kRlx);
  vf::MgrNodeFreed(p);
  free(p);
}

namespace vf
{
/*##############################################################################
 * hooks: probe start
 *############################################################################*/
thread_local int64_t tl_probe_start = -1;
std::atomic<uint64_t> g_first_call_heartbeat{0};
std::atomic<uint64_t> g_first_call_toggle{0};
}  // namespace vf

namespace dbgroup::verif
{
auto
ProbeStart(std::size_t dflt, std::size_t cap) noexcept -> std::size_t
{
  if (vf::tl_probe_start < 0) return dflt;
  return static_cast<std::size_t>(vf::tl_probe_start) % cap;
}
}  // namespace dbgroup::verif

namespace vf
{
// A thread's first call into IDManager is GetThreadID for two threads out of three and GetHeartBeat for the third (the
// thread-local state behind the two is created by whichever comes first).
inline size_t
FirstClaim()
{
  if (g_first_call_toggle.fetch_add(1, kRlx) % 3 == 2) {
    g_first_call_heartbeat.fetch_add(1, kRlx);
    const auto hb = ::dbgroup::thread::IDManager::GetHeartBeat();
    (void)hb;
  }
  return ::dbgroup::thread::IDManager::GetThreadID();
}

struct Cfg {
  std::string mode;
  uint64_t seed{1};
  uint64_t scale{1};
  std::string sub{"A"};
  uint64_t hang_s{20};
  uint64_t step{0};
  uint64_t heavy{2};  // churnstorm flavour: 0 moderate, 1 heavy, 2 by seed parity
  uint64_t pace_ns{2000};
  uint64_t fwdchaos{0};
  uint64_t preempt{0};
};
Cfg g_cfg;

constexpr int kCpUser = 63;  // client chaos point (ids 0-60 belong to the library's hooks)

// merges the per-thread chaos counters when the thread's TLS is destroyed (after ~HeartBeater may have run
// or before: order of TLS destruction is reverse of construction; this object is constructed first)
struct ChaosMerger {
  ~ChaosMerger()
  {
    if (t_chaos.enabled) ChaosThreadEnd();
  }
};

/*##############################################################################
 * mode=id : C05, C14, C15
 *############################################################################*/
namespace idm
{
constexpr int kMaxLive = 4096;
struct LiveSlot {
  std::atomic<int> state{0};  // 0 unused, 1 running user code, 2 leaving
  std::mutex mtx;
  std::weak_ptr<size_t> hb;
  std::atomic<uint64_t> id{~0ULL};
};
LiveSlot g_live[kMaxLive];
std::atomic<uint64_t> g_uid{0};
std::atomic<uint64_t> g_owner[kN > 0 ? kN : 1];
std::mutex g_hist_mtx[kN > 0 ? kN : 1];
std::vector<std::weak_ptr<size_t>> g_hist[kN > 0 ? kN : 1];
std::atomic<uint64_t> g_claimed{0}, g_finished{0}, g_claiming{0};
std::atomic<uint64_t> g_reuse_total{0}, g_reuse_in_exit_window{0}, g_hb_alive_checks{0}, g_contended_claims{0};
std::atomic<uint64_t> g_slot_claims[kN > 0 ? kN : 1];
std::atomic<uint64_t> g_wraps{0};
std::atomic<uint64_t> g_pattern_sig{0};
// observers may pin a heartbeat with weak_ptr::lock(); sandwich counters tell the checks when a pin can have kept
// a heartbeat alive
std::atomic<uint64_t> g_pin_begin[kN > 0 ? kN : 1], g_pin_end[kN > 0 ? kN : 1];
std::atomic<uint64_t> g_pins{0}, g_stability_checks_while_pinned{0};
std::atomic<int> g_pinning{0};  // 1: this run uses pins

thread_local uint64_t tl_probe_count = 0;
thread_local uint64_t tl_my_id = ~0ULL;
thread_local bool tl_exiting = false;

void
PointCb(int id, const void *)
{
  using namespace ::dbgroup::verif;
  if (id == kIdProbe) {
    ++tl_probe_count;
  } else if (id == kIdExitBegin) {
    tl_exiting = true;
  }
}

// body of every thread in id mode
void
ThreadBody(uint64_t seed, int pattern, uint64_t hold_ns, std::atomic<int> *gate, std::atomic<int> *holders, int need_holders)
{
  static thread_local ChaosMerger merger;
  (void)merger;
  const auto uid = g_uid.fetch_add(1) + 1;
  ChaosThreadBegin(static_cast<int>(uid & 0xFFFF), seed + uid);
  Rng r;
  r.Seed(seed * 77 + uid);
  switch (pattern) {
    case 0: tl_probe_start = 0; break;                                   // full collision
    case 1: tl_probe_start = static_cast<int64_t>(uid % kN); break;      // consecutive
    case 2: tl_probe_start = static_cast<int64_t>(kN - 1); break;        // wrap at N-1
    case 3: tl_probe_start = static_cast<int64_t>(r.Below(kN)); break;   // random
    case 5: tl_probe_start = static_cast<int64_t>(kN - 2 + (uid & 1)); break;
    default: tl_probe_start = -1; break;                                 // real hash
  }
  if (gate != nullptr) {
    while (gate->load(kMo) == 0) sched_yield();
  }
  g_claiming.fetch_add(1);
  tl_probe_count = 0;
  t_chaos.cur_op = 1;
  const auto id = FirstClaim();
  t_chaos.cur_op = 2;
  g_claiming.fetch_sub(1);
  g_claimed.fetch_add(1);
  g_ops_done.fetch_add(1, kRlx);  // lets parked exits measure that a claim completed meanwhile
  if (tl_probe_count > 1) g_contended_claims.fetch_add(1);
  if (tl_probe_count > kN) g_wraps.fetch_add(1);
  if (id >= kN) {
    Violate("C05", "id-out-of-range", Fmt("GetThreadID returned %zu with capacity %zu (probe pattern %d)", id, kN, pattern));
    if (holders != nullptr) holders->fetch_add(1);
    g_finished.fetch_add(1);
    return;
  }
  tl_my_id = id;
  g_slot_claims[id].fetch_add(1);
  const auto prev = g_owner[id].exchange(uid, kMo);
  if (prev != 0) {
    Violate("C05", "same-id-held-by-two-running-threads",
            Fmt("capacity=%zu pattern=%d: thread uid=%" PRIu64 " obtained id %zu while thread uid=%" PRIu64
                " is still executing user code with the same id",
                kN, pattern, uid, id, prev));
  }
  // C15 (c): every heartbeat handed out to earlier owners of this id must be expired by now
  std::weak_ptr<size_t> my_hb;
  {
    std::lock_guard<std::mutex> g{g_hist_mtx[id]};
    size_t alive = 0;
    const auto pins_ended = g_pin_end[id].load(kMo);
    for (auto &wp : g_hist[id]) alive += wp.expired() ? 0 : 1;
    const bool pin_possible = g_pin_begin[id].load(kMo) != pins_ended;  // some pin overlapped the check
    if (!g_hist[id].empty()) g_reuse_total.fetch_add(1);
    if (alive != 0 && !pin_possible) {
      Violate("C15", "id-reused-while-an-earlier-owners-heartbeat-is-unexpired",
              Fmt("capacity=%zu pattern=%d: id %zu was handed to thread uid=%" PRIu64 " although %zu of %zu "
                  "heartbeats of earlier owners of that id are not expired",
                  kN, pattern, id, uid, alive, g_hist[id].size()));
    }
    my_hb = IDManager::GetHeartBeat();
    if (g_hist[id].size() > 64) g_hist[id].erase(g_hist[id].begin(), g_hist[id].begin() + 32);
    g_hist[id].push_back(my_hb);
  }
  if (my_hb.expired()) {
    Violate("C15", "heartbeat-of-running-thread-expired", Fmt("uid=%" PRIu64 " id=%zu right after GetHeartBeat", uid, id));
  }
  auto &ls = g_live[uid % kMaxLive];
  {
    std::lock_guard<std::mutex> g{ls.mtx};
    ls.hb = my_hb;
    ls.id.store(id);
  }
  ls.state.store(1, kMo);
  if (holders != nullptr) {
    holders->fetch_add(1);
    // all `need_holders` threads must hold an ID at the same time before anybody leaves
    while (holders->load(kMo) < need_holders) sched_yield();
  }
  // stability + liveness of other threads' heartbeats
  const bool pinning = g_pinning.load(kRlx) != 0;
  const int reps = (pinning ? 10 : 1) + static_cast<int>(r.Below(pinning ? 14 : 6));
  for (int i = 0; i < reps; ++i) {
    const bool pinned_now = g_pin_begin[id].load(kMo) != g_pin_end[id].load(kMo);
    const auto again = (i & 1) ? IDManager::GetThreadID() : *IDManager::GetHeartBeat().lock();
    if (pinned_now) g_stability_checks_while_pinned.fetch_add(1, kRlx);
    if (again != id) {
      Violate("C05", "id-not-stable",
              Fmt("capacity=%zu: thread uid=%" PRIu64 " first got id %zu, a later call returned %zu%s", kN, uid, id, again,
                  pinned_now ? " (another thread was holding a shared_ptr obtained from its heartbeat via lock())" : ""));
    }
    if (IDManager::GetHeartBeat().expired() || my_hb.expired()) {
      Violate("C15", "heartbeat-of-running-thread-expired", Fmt("capacity=%zu uid=%" PRIu64 " id=%zu: own heartbeat expired while running", kN, uid, id));
    }
    if (pinning && r.Chance(1, 2)) {
      // pin another running thread's heartbeat for a moment (a legitimate use of the weak_ptr)
      const auto o2 = 1 + r.Below(g_uid.load());
      auto &ps = g_live[o2 % kMaxLive];
      if (o2 != uid && ps.state.load(kMo) == 1) {
        const auto oid = ps.id.load(kMo);
        if (oid < kN) {
          g_pin_begin[oid].fetch_add(1, kMo);
          {
            std::weak_ptr<size_t> w;
            {
              std::lock_guard<std::mutex> g{ps.mtx};
              w = ps.hb;
            }
            auto sp = w.lock();
            if (sp) {
              g_pins.fetch_add(1, kRlx);
              if (*sp >= kN) Violate("C05", "heartbeat-carries-out-of-range-id", Fmt("%zu", *sp));
              SpinNs(r.Below(30000));
            }
          }
          g_pin_end[oid].fetch_add(1, kMo);
        }
      }
    }
    // another running thread's heartbeat must not be expired
    const auto other = 1 + r.Below(g_uid.load());
    auto &os = g_live[other % kMaxLive];
    if (other != uid && os.state.load(kMo) == 1) {
      bool expired = false;
      {
        std::lock_guard<std::mutex> g{os.mtx};
        expired = os.hb.expired();
      }
      if (os.state.load(kMo) == 1) {
        g_hb_alive_checks.fetch_add(1);
        if (expired) {
          Violate("C15", "heartbeat-of-running-thread-expired",
                  Fmt("heartbeat of a thread that is still executing user code (slot %" PRIu64 ") is expired", other % kMaxLive));
        }
      }
    }
    if (hold_ns) SpinNs(r.Below(hold_ns + 1));
    ClientPoint(kCpUser);
  }
  if (my_hb.expired()) {
    Violate("C15", "heartbeat-of-running-thread-expired", Fmt("uid=%" PRIu64 " id=%zu before leaving", uid, id));
  }
  ls.state.store(2, kMo);
  g_owner[id].store(0, kMo);  // last action in user code
  g_finished.fetch_add(1);
  // keep chaos enabled: the exit path (~HeartBeater) runs after this function returns
}

struct Spawned {
  std::thread th;
  uint64_t uid_hint;
};

// watchdog for a set of claimers: returns false on hang
bool
WaitAll(std::vector<std::thread> &ths, const char *scenario, uint64_t expect_claims, const std::string &ctx)
{
  const auto t0 = NowNs();
  uint64_t last = ~0ULL;
  uint64_t last_change = t0;
  uint64_t cpu0 = CpuNs();
  while (true) {
    const auto done = g_finished.load();
    if (done >= expect_claims) break;
    const auto sig = done * 1000003 + g_claimed.load();
    const auto now = NowNs();
    if (sig != last) {
      last = sig;
      last_change = now;
      cpu0 = CpuNs();
    } else if (now - last_change > g_cfg.hang_s * 1000000000ULL) {
      if (CpuNs() - cpu0 < 200000000ULL && now - last_change < 6 * g_cfg.hang_s * 1000000000ULL) {
        SleepNs(20000000);
        continue;
      }
      std::string owners;
      for (size_t i = 0; i < kN; ++i) owners += Fmt("%zu:%" PRIu64 " ", i, g_owner[i].load());
      Violate("C14", Fmt("GetThreadID-does-not-return:%s", scenario),
              Fmt("capacity=%zu %s: %" PRIu64 " thread(s) have been spinning in GetThreadID for %" PRIu64
                  " s although only %" PRIu64 " of the threads of this step still hold an ID (ghost owner table: %s)",
                  kN, ctx.c_str(), g_claiming.load(), g_cfg.hang_s, g_claimed.load() - g_finished.load(), owners.c_str()));
      Result hres;
      hres.counters["evaluations"] = g_finished.load();
      hres.Add("thread_lifetimes", g_finished.load());
      hres.Add("hangs", 1);
      EmitResult(hres, "hang");
      fflush(stdout);
      _exit(0);
    }
    SleepNs(200000);
  }
  for (auto &t : ths) t.join();
  return true;
}

int
Run()
{
  g_point_cb = &PointCb;
  Rng r;
  r.Seed(g_cfg.seed * 31337 + kN);
  {
    using namespace ::dbgroup::verif;
    std::vector<int> cand = {kIdProbe, kIdClaimed, kIdExitBegin, kIdExitMiddle, kIdExitEnd, kCpUser};
    MakePlan(r, cand, 2);
    // the exit window is the target: park there often and long
    g_plan.prob[kIdExitEnd] = 30000;
    g_plan.prob[kIdExitMiddle] = 30000;
    g_plan.prob[kIdExitBegin] = 8000;
    g_plan.th_yield = 20;
    g_plan.th_spin = 80;
    g_plan.th_sleep = 240;
  }
  Result res;
  uint64_t steps = 0;
  bool hung = false;
  const uint64_t rounds = 40 * g_cfg.scale;
  for (uint64_t round = 0; round < rounds && !hung; ++round) {
    const int pattern = static_cast<int>(r.Below(6));
    g_pattern_sig.fetch_or(1ULL << pattern);
    g_pinning.store((round & 1) ? 1 : 0, kMo);
    const int scenario = static_cast<int>(r.Below(4));
    const uint64_t hold = r.Below(3) == 0 ? 0 : r.Range(100, 20000);
    const auto base_finished = g_finished.load();
    std::vector<std::thread> ths;
    std::atomic<int> gate{0};
    std::atomic<int> holders{0};
    if (scenario == 0) {
      // full wave: exactly N simultaneous holders, all must hold before anybody leaves (=> every ID is free
      // again after the previous step, C14)
      for (size_t i = 0; i < kN; ++i) ths.emplace_back(ThreadBody, g_cfg.seed + round, pattern, hold, &gate, &holders, static_cast<int>(kN));
      gate.store(1);
      hung = !WaitAll(ths, "wave-of-N-simultaneous-holders", base_finished + kN, Fmt("round %" PRIu64 " pattern %d", round, pattern));
      res.Add("waves_of_N_simultaneous_holders", 1);
      steps += kN;
    } else if (scenario == 1) {
      // oversubscription: T > N threads start at once; the ones that find all IDs taken must get one as soon as a
      // holder exits
      const size_t T = kN + 1 + r.Below(3 * kN);
      for (size_t i = 0; i < T; ++i) ths.emplace_back(ThreadBody, g_cfg.seed + round, pattern, hold, &gate, nullptr, 0);
      gate.store(1);
      hung = !WaitAll(ths, "oversubscribed-start", base_finished + T, Fmt("round %" PRIu64 " pattern %d T=%zu", round, pattern, T));
      res.Add("oversubscribed_rounds", 1);
      steps += T;
    } else {
      // churn: at most N unjoined threads at any time; new threads start while others are exiting
      const size_t total = 4 * kN + r.Below(8 * kN);
      std::vector<std::thread> window;
      size_t started = 0;
      bool ok = true;
      while (started < total && ok) {
        while (window.size() < kN && started < total) {
          window.emplace_back(ThreadBody, g_cfg.seed + round, pattern, hold, nullptr, nullptr, 0);
          ++started;
        }
        // join the oldest (its ID must come back), then refill
        std::vector<std::thread> one;
        one.push_back(std::move(window.front()));
        window.erase(window.begin());
        const auto need = base_finished + started - window.size();
        ok = WaitAll(one, "churn", need, Fmt("round %" PRIu64 " pattern %d churn", round, pattern));
      }
      if (ok) {
        ok = WaitAll(window, "churn", base_finished + total, "churn tail");
      }
      hung = !ok;
      res.Add("churn_rounds", 1);
      steps += total;
    }
    if (hung) break;
    // C15 (b): after join every recorded heartbeat is expired
    for (size_t i = 0; i < kN; ++i) {
      std::lock_guard<std::mutex> g{g_hist_mtx[i]};
      for (auto &wp : g_hist[i]) {
        if (!wp.expired()) {
          Violate("C15", "heartbeat-still-alive-after-thread-exit", Fmt("capacity=%zu id %zu: a heartbeat is unexpired after all threads were joined", kN, i));
          break;
        }
      }
    }
    for (size_t i = 0; i < kN; ++i) {
      if (g_owner[i].load() != 0) Violate("HARNESS", "owner-table-not-empty", "");
    }
  }
  res.Add("thread_lifetimes", steps);
  res.counters["evaluations"] = steps;
  res.Add("id_reuses_checked", g_reuse_total.load());
  res.Add("claims_that_probed_more_than_one_slot", g_contended_claims.load());
  res.Add("claims_that_wrapped_around", g_wraps.load());
  res.Add("heartbeat_alive_checks_on_running_threads", g_hb_alive_checks.load());
  res.Add("heartbeats_pinned_by_other_threads", g_pins.load());
  res.Add("stability_checks_while_heartbeat_pinned", g_stability_checks_while_pinned.load());
  for (size_t i = 0; i < kN && i < 64; ++i) {
    if (g_slot_claims[i].load()) res.signatures.push_back(Fmt("id:N=%zu:slot-%zu-claimed", kN, i));
  }
  for (int p = 0; p < 6; ++p) {
    if (g_pattern_sig.load() & (1ULL << p)) res.signatures.push_back(Fmt("id:N=%zu:probe-pattern-%d", kN, p));
  }
  res.samples.push_back(Fmt("{\"capacity\":%zu,\"rounds\":%" PRIu64 ",\"thread_lifetimes\":%" PRIu64 ",\"seed\":%" PRIu64 "}", kN, rounds, steps, g_cfg.seed));
  {
    // main never called ChaosThreadBegin; collect totals of exited threads (each called ChaosThreadEnd? no:
    // chaos stays enabled through the exit path, so totals are merged by a thread_local destructor below)
  }
  EmitResult(res, hung ? "hang" : "ok");
  if (hung) {
    fflush(stdout);
    _exit(0);
  }
  return 0;
}

// mode=storm: maximal simultaneity of the claim loop.  Every round starts exactly N threads that are released from
// a spin barrier, all probing from the same position, and hold their IDs until all N hold one; no injected delays
// (they would spread the claims out).  Checks range and uniqueness only; tens of thousands of rounds per process.
void
StormBody(int pattern, uint64_t uidbase, int idx, std::atomic<int> *gate, std::atomic<int> *holders)
{
  const uint64_t uid = uidbase + static_cast<uint64_t>(idx) + 1;
  if (g_preempt_run.load(kRlx)) PreemptRegister();
  switch (pattern) {
    case 0: tl_probe_start = 0; break;
    case 1: tl_probe_start = static_cast<int64_t>(kN - 1); break;
    case 2: tl_probe_start = static_cast<int64_t>((idx / 2) % kN); break;  // pairs collide
    default: tl_probe_start = -1; break;
  }
  while (gate->load(std::memory_order_acquire) == 0) {
  }
  const auto id = FirstClaim();
  if (id >= kN) {
    Violate("C05", "id-out-of-range", Fmt("GetThreadID returned %zu with capacity %zu (storm, pattern %d)", id, kN, pattern));
  } else {
    const auto prev = g_owner[id].exchange(uid, kMo);
    if (prev != 0) {
      Violate("C05", "same-id-held-by-two-running-threads",
              Fmt("capacity=%zu storm pattern=%d: thread uid=%" PRIu64 " obtained id %zu while thread uid=%" PRIu64
                  " is still executing user code with the same id",
                  kN, pattern, uid, id, prev));
    }
    g_slot_claims[id].fetch_add(1, kRlx);
  }
  holders->fetch_add(1, kMo);
  const auto t0 = NowNs();
  while (holders->load(kMo) < static_cast<int>(kN) && NowNs() - t0 < 20000000000ULL) {
  }
  if (IDManager::GetThreadID() != id) Violate("C05", "id-not-stable", Fmt("storm: %zu then %zu", id, IDManager::GetThreadID()));
  if (id < kN) g_owner[id].store(0, kMo);
  PreemptUnregister();
}

int
RunStorm()
{
  Result res;
  Rng r;
  r.Seed(g_cfg.seed * 99991 + kN);
  const uint64_t rounds = 2500 * g_cfg.scale;
  uint64_t done = 0;
  const auto t0 = NowNs();
  for (uint64_t round = 0; round < rounds; ++round) {
    if ((round & 63) == 0 && NowNs() - t0 > 60ULL * 1000000000ULL) break;
    const int pattern = static_cast<int>(r.Below(4));
    g_pattern_sig.fetch_or(1ULL << pattern);
    std::atomic<int> gate{0}, holders{0};
    std::vector<std::thread> ths;
    for (size_t i = 0; i < kN; ++i) ths.emplace_back(StormBody, pattern, round * kN, static_cast<int>(i), &gate, &holders);
    gate.store(1, std::memory_order_release);
    const auto tw = NowNs();
    while (holders.load(kMo) < static_cast<int>(kN)) {
      if (NowNs() - tw > g_cfg.hang_s * 1000000000ULL) {
        Violate("C14", "GetThreadID-does-not-return:storm-of-N-simultaneous-claims",
                Fmt("capacity=%zu storm round %" PRIu64 ": only %d of %zu simultaneous claimers obtained an ID within %" PRIu64 " s although all IDs were free", kN,
                    round, holders.load(), kN, g_cfg.hang_s));
        res.Add("hangs", 1);
        res.counters["evaluations"] = done * kN;
        EmitResult(res, "hang");
        fflush(stdout);
        _exit(0);
      }
      sched_yield();
    }
    for (auto &t : ths) t.join();
    ++done;
    if (g_log.n_viol.load() != 0) break;
  }
  res.Add("storm_rounds", done);
  res.Add("thread_lifetimes", done * kN);
  res.counters["evaluations"] = done * kN;
  for (size_t i = 0; i < kN && i < 64; ++i) {
    if (g_slot_claims[i].load()) res.signatures.push_back(Fmt("storm:N=%zu:slot-%zu-claimed", kN, i));
  }
  for (int p = 0; p < 4; ++p) {
    if (g_pattern_sig.load() & (1ULL << p)) res.signatures.push_back(Fmt("storm:N=%zu:probe-pattern-%d", kN, p));
  }
  res.samples.push_back(Fmt("{\"mode\":\"storm\",\"capacity\":%zu,\"rounds\":%" PRIu64 ",\"seed\":%" PRIu64 "}", kN, done, g_cfg.seed));
  EmitResult(res, "ok");
  return 0;
}

// mode=churnstorm: the ID table is kept full and over-subscribed: 3N driver threads each start one short-lived worker
// after the other; a worker claims an ID (spinning while the table is full), checks range / uniqueness / that every
// heartbeat of earlier owners of its ID is expired, holds the ID for a few tens of microseconds and exits.  No
// injected delays: the point is the number of simultaneous claimers racing for a slot that was just released.
std::atomic<uint64_t> g_cs_workers{0};
std::atomic<bool> g_cs_stop{false};

void
ChurnWorker(uint64_t hold_ns)
{
  const auto uid = g_uid.fetch_add(1) + 1;
  tl_probe_start = -1;
  if (g_preempt_run.load(kRlx)) PreemptRegister();
  const auto id = FirstClaim();
  if (id >= kN) {
    Violate("C05", "id-out-of-range", Fmt("GetThreadID returned %zu with capacity %zu (churn storm)", id, kN));
    PreemptUnregister();
    return;
  }
  const auto prev = g_owner[id].exchange(uid, kMo);
  if (prev != 0) {
    Violate("C05", "same-id-held-by-two-running-threads",
            Fmt("capacity=%zu churn storm: thread uid=%" PRIu64 " obtained id %zu while thread uid=%" PRIu64 " is still executing user code with the same id",
                kN, uid, id, prev));
  }
  {
    std::lock_guard<std::mutex> g{g_hist_mtx[id]};
    size_t alive = 0;
    for (auto &wp : g_hist[id]) alive += wp.expired() ? 0 : 1;
    if (!g_hist[id].empty()) g_reuse_total.fetch_add(1, kRlx);
    if (alive != 0) {
      Violate("C15", "id-reused-while-an-earlier-owners-heartbeat-is-unexpired",
              Fmt("capacity=%zu churn storm: id %zu was handed to thread uid=%" PRIu64 " although %zu heartbeat(s) of earlier owners are not expired", kN, id, uid,
                  alive));
    }
    if (g_hist[id].size() > 8) g_hist[id].erase(g_hist[id].begin(), g_hist[id].begin() + 4);
    g_hist[id].push_back(IDManager::GetHeartBeat());
  }
  g_slot_claims[id].fetch_add(1, kRlx);
  SpinNs(hold_ns);
  if (IDManager::GetThreadID() != id) Violate("C05", "id-not-stable", Fmt("churn storm: %zu then %zu", id, IDManager::GetThreadID()));
  if (prev == 0) g_owner[id].store(0, kMo);
  g_cs_workers.fetch_add(1, kRlx);
  PreemptUnregister();
}

int
RunChurnStorm()
{
  Result res;
  Rng r;
  r.Seed(g_cfg.seed * 424243 + kN);
  // two flavours: moderate over-subscription with short holds, or heavy CPU over-subscription with no hold at all
  // (the second one lets claimers be preempted between the two steps of a lost race)
  const bool heavy = g_cfg.heavy == 2 ? (g_cfg.seed & 1) != 0 : g_cfg.heavy != 0;
  const size_t drivers = heavy ? 64 : std::min<size_t>(3 * kN, 48);
  const uint64_t per_driver = (heavy ? 150 : 400) * g_cfg.scale;
  const uint64_t hold_ns = heavy ? 0 : r.Range(20000, 120000);
  std::vector<std::thread> ds;
  const auto t0 = NowNs();
  for (size_t d = 0; d < drivers; ++d) {
    ds.emplace_back([&, d] {
      for (uint64_t i = 0; i < per_driver && !g_cs_stop.load(kRlx); ++i) {
        std::thread w{ChurnWorker, hold_ns};
        w.join();
        if (g_log.n_viol.load(kRlx) != 0) g_cs_stop.store(true, kRlx);
      }
    });
  }
  // watchdog
  uint64_t last = ~0ULL, last_change = NowNs();
  while (true) {
    SleepNs(20000000);
    const auto w = g_cs_workers.load();
    if (w >= drivers * per_driver || g_cs_stop.load()) break;
    const auto now = NowNs();
    if (w != last) {
      last = w;
      last_change = now;
    } else if (now - last_change > g_cfg.hang_s * 1000000000ULL) {
      Violate("C14", "GetThreadID-does-not-return:churn-storm",
              Fmt("capacity=%zu churn storm with %zu drivers: no worker obtained an ID for %" PRIu64 " s although workers keep exiting", kN, drivers, g_cfg.hang_s));
      res.Add("hangs", 1);
      res.counters["evaluations"] = w;
      EmitResult(res, "hang");
      fflush(stdout);
      _exit(0);
    }
    if (now - t0 > 90ULL * 1000000000ULL) g_cs_stop.store(true);
  }
  for (auto &d : ds) d.join();
  // C14: every thread of the storm has exited, so every ID must be available again: exactly N simultaneous holders
  if (g_log.n_viol.load() == 0) {
    std::atomic<int> gate{0}, holders{0};
    std::vector<std::thread> ths;
    const auto base = g_finished.load();
    for (size_t i = 0; i < kN; ++i) ths.emplace_back(ThreadBody, g_cfg.seed, 4, 0, &gate, &holders, static_cast<int>(kN));
    gate.store(1);
    WaitAll(ths, "wave-of-N-simultaneous-holders-after-churn-storm", base + kN, "after the churn storm");
    res.Add("waves_of_N_simultaneous_holders", 1);
  }
  res.Add(heavy ? "churn_storms_heavy" : "churn_storms_moderate", 1);
  res.Add("churn_storm_workers", g_cs_workers.load());
  res.Add("thread_lifetimes", g_cs_workers.load());
  res.Add("id_reuses_checked", g_reuse_total.load());
  res.counters["evaluations"] = g_cs_workers.load();
  res.signatures.push_back(Fmt("churnstorm:N=%zu:drivers=%zu", kN, drivers));
  res.samples.push_back(Fmt("{\"mode\":\"churnstorm\",\"capacity\":%zu,\"drivers\":%zu,\"workers\":%" PRIu64 ",\"hold_ns\":%" PRIu64 "}", kN, drivers,
                            g_cs_workers.load(), hold_ns));
  EmitResult(res, "ok");
  return 0;
}

// mode=handoff: a randomised history of thread starts and exits with a definite expectation after every step.  Holder
// threads claim an ID and keep it until they are told to exit; transient threads claim an ID and exit at once; starts
// and exits are fired together from a spin gate with sub-microsecond skews (a claim that fills the table racing with an
// exit, exits racing with waiters that are awake).  After every step the number of holders must reach
// min(N, holder threads alive) - every ID that is free must be obtainable - within the watchdog horizon; no injected
// delays, optionally signal preemption.
struct HThread {
  std::thread th;
  std::atomic<int> release{0};
  std::atomic<int> state{0};  // 0 started, 1 holding, 2 left user code
  bool transient{false};
  bool released{false};
  uint64_t skew_ns{0};
  // instruction stepper: stall this thread step_ns at the step_k-th instruction after every probe hook of its claim
  // loop / exit_ns at the exit_k-th instruction after the first hook of its exit path (0 = not stepped)
  uint32_t step_k{0}, exit_k{0};
  uint64_t step_ns{0}, exit_ns{0};
};
thread_local uint32_t tl_ho_step_k = 0, tl_ho_exit_k = 0;
thread_local uint64_t tl_ho_step_ns = 0, tl_ho_exit_ns = 0;
std::atomic<uint64_t> g_ho_claim_arms{0}, g_ho_exit_arms{0};

void
HandoffPointCb(int id, const void *)
{
  using namespace ::dbgroup::verif;
  switch (id) {
    case kIdProbe:
      if (tl_ho_step_k != 0) {
        g_ho_claim_arms.fetch_add(1, kRlx);
        StepArm(tl_ho_step_k, tl_ho_step_ns);
      }
      break;
    case kIdClaimed: StepDisarm(); break;
    case kIdExitBegin:
      if (tl_ho_exit_k != 0) {
        g_ho_exit_arms.fetch_add(1, kRlx);
        StepArm(tl_ho_exit_k, tl_ho_exit_ns);
      }
      break;
    case kIdExitEnd: StepDisarm(); break;  // never step into the C library's thread exit (it blocks signals)
    default: break;
  }
}
std::atomic<int> g_ho_gate_seq{0};
std::atomic<int64_t> g_ho_holding{0};
std::atomic<uint64_t> g_ho_claims{0}, g_ho_transient_done{0};

void
HandoffBody(HThread *h, int gate_seq, int64_t probe, uint64_t uid)
{
  tl_probe_start = probe;
  if (g_preempt_run.load(kRlx)) PreemptRegister();
  while (g_ho_gate_seq.load(std::memory_order_acquire) < gate_seq) {
  }
  if (h->skew_ns != 0) SpinNs(h->skew_ns);
  tl_ho_step_k = h->step_k;
  tl_ho_step_ns = h->step_ns;
  const auto id = FirstClaim();
  tl_ho_step_k = 0;
  StepDisarm();
  g_ho_claims.fetch_add(1, kRlx);
  if (id >= kN) {
    Violate("C05", "id-out-of-range", Fmt("GetThreadID returned %zu with capacity %zu (handoff)", id, kN));
  } else {
    const auto prev = g_owner[id].exchange(uid, kMo);
    if (prev != 0) {
      Violate("C05", "same-id-held-by-two-running-threads",
              Fmt("capacity=%zu handoff: thread uid=%" PRIu64 " obtained id %zu while thread uid=%" PRIu64 " is still executing user code with the same id", kN, uid,
                  id, prev));
    }
    g_slot_claims[id].fetch_add(1, kRlx);
    {
      // C15: every heartbeat handed out to earlier owners of this ID is expired by now
      std::lock_guard<std::mutex> g{g_hist_mtx[id]};
      size_t alive = 0;
      for (auto &wp : g_hist[id]) alive += wp.expired() ? 0 : 1;
      if (!g_hist[id].empty()) g_reuse_total.fetch_add(1, kRlx);
      if (alive != 0) {
        Violate("C15", "id-reused-while-an-earlier-owners-heartbeat-is-unexpired",
                Fmt("capacity=%zu handoff: id %zu was handed to thread uid=%" PRIu64 " although %zu heartbeat(s) of earlier owners are not expired", kN, id, uid, alive));
      }
      if (g_hist[id].size() > 8) g_hist[id].erase(g_hist[id].begin(), g_hist[id].begin() + 4);
      g_hist[id].push_back(IDManager::GetHeartBeat());
    }
    if (IDManager::GetHeartBeat().expired()) {
      Violate("C15", "heartbeat-of-running-thread-expired", Fmt("capacity=%zu handoff: the heartbeat of the running thread uid=%" PRIu64 " (id %zu) is expired", kN, uid, id));
    }
  }
  if (!h->transient) {
    g_ho_holding.fetch_add(1, kMo);
    h->state.store(1, kMo);
    if (kN > 16) {
      h->release.wait(0, std::memory_order_acquire);  // large tables: up to N + 3 waiting threads must not burn the cores
    } else {
      while (h->release.load(std::memory_order_acquire) == 0) sched_yield();
    }
    if (h->skew_ns != 0) SpinNs(h->skew_ns);
    if (IDManager::GetThreadID() != id) Violate("C05", "id-not-stable", Fmt("handoff: %zu then %zu", id, IDManager::GetThreadID()));
    g_ho_holding.fetch_sub(1, kMo);
  }
  if (id < kN) g_owner[id].store(0, kMo);
  tl_ho_exit_k = h->exit_k;  // (read by the hook in the thread-exit path)
  tl_ho_exit_ns = h->exit_ns;
  h->state.store(2, kMo);
  if (h->transient) g_ho_transient_done.fetch_add(1, kMo);
  PreemptUnregister();
}

int
RunHandoff()
{
  Result res;
  Rng r;
  r.Seed(g_cfg.seed * 271828 + kN);
  // every second run places stalls at single instructions of the claim loop and of the exit path (trap-flag stepper)
  const bool stepping = VERIF_STEPPER && g_cfg.step != 0;
  if (stepping) {
    StepperInstall();
    g_point_cb = &HandoffPointCb;
  }
  const uint64_t steps = (stepping ? 4000 : 12000) * g_cfg.scale;
  std::vector<std::unique_ptr<HThread>> alive;  // holder threads not yet told to exit
  std::vector<std::unique_ptr<HThread>> leaving;  // told to exit / transient: joined lazily
  uint64_t uid = 0, transients_started = 0, done = 0, fills_racing_exits = 0, exits_with_waiters = 0, cascades = 0, resets = 0;
  int gate_seq = 0;
  const auto t0 = NowNs();
  std::vector<HThread *> exiting;
  auto settle = [&](const char *what) {
    // every transient thread has finished and the holders have reached min(N, alive holder threads)
    const auto tw = NowNs();
    while (true) {
      const auto want = static_cast<int64_t>(std::min<size_t>(kN, alive.size()));
      bool left = true;
      for (auto *h : exiting) left = left && h->state.load(kMo) == 2;
      if (left && g_ho_transient_done.load(kMo) == transients_started && g_ho_holding.load(kMo) == want) return true;
      if (g_ho_holding.load(kMo) > static_cast<int64_t>(kN)) {
        Violate("C05", "more-holders-than-ids", Fmt("capacity=%zu handoff: %" PRId64 " threads hold an ID at the same time", kN, g_ho_holding.load()));
        return false;
      }
      if (NowNs() - tw > g_cfg.hang_s * 1000000000ULL) {
        Violate("C14", Fmt("GetThreadID-does-not-return:handoff:%s", what),
                Fmt("capacity=%zu handoff step %" PRIu64 " (%s): %zu holder threads are alive (none told to exit), %" PRIu64 " of %" PRIu64
                    " transient threads have finished, but only %" PRId64 " threads hold an ID after %" PRIu64 " s although min(N, alive) = %" PRId64
                    " IDs must be obtainable",
                    kN, done, what, alive.size(), g_ho_transient_done.load(), transients_started, g_ho_holding.load(), g_cfg.hang_s, want));
        res.Add("hangs", 1);
        res.counters["evaluations"] = done;
        EmitResult(res, "hang");
        fflush(stdout);
        _exit(0);
      }
      sched_yield();
    }
  };
  auto reap = [&](bool all) {
    for (size_t i = 0; i < leaving.size();) {
      if (all || leaving[i]->state.load(kMo) == 2) {
        leaving[i]->th.join();
        leaving[i] = std::move(leaving.back());
        leaving.pop_back();
      } else {
        ++i;
      }
    }
  };
  for (; done < steps; ++done) {
    if ((done & 255) == 0 && NowNs() - t0 > 60ULL * 1000000000ULL) break;
    if (g_log.n_viol.load(kRlx) != 0) break;
    // what happens in this step: new holder threads, new transient threads, holders told to exit - fired together
    const auto kind = r.Below(8);
    size_t n_hold = 0, n_trans = 0, n_exit = 0;
    const size_t cap_alive = kN + 3;
    switch (kind) {
      case 0: n_hold = 1 + r.Below(2); break;
      case 1: n_exit = 1 + r.Below(2); break;
      case 2:
      case 3: n_hold = 1; n_exit = 1; break;  // a claim racing with an exit
      case 4: n_trans = 1 + r.Below(6); break;  // a cascade of claims and immediate exits
      case 5: n_trans = 1 + r.Below(4); n_exit = 1; break;
      case 6: n_hold = 1 + r.Below(2); n_trans = 1 + r.Below(3); n_exit = r.Below(3); break;
      default: n_exit = alive.size() > kN ? alive.size() - kN + 1 : 1; break;
    }
    if (alive.size() + 1 < kN && r.Chance(1, 2)) {
      // keep the table nearly full: that is where claims and exits interfere
      n_hold = kN - 1 - alive.size();
      n_exit = 0;
      n_trans = r.Chance(1, 4) ? 1 : 0;
    }
    if (alive.size() + n_hold > cap_alive) n_hold = cap_alive > alive.size() ? cap_alive - alive.size() : 0;
    n_exit = std::min(n_exit, alive.size());
    const int64_t probe = r.Chance(1, 3) ? 0 : (r.Chance(1, 2) ? static_cast<int64_t>(r.Below(kN)) : -1);
    const uint64_t max_skew = r.Chance(1, 3) ? 0 : (r.Chance(1, 2) ? 800 : 6000);
    exiting.clear();
    for (size_t i = 0; i < n_exit; ++i) {
      // only threads that hold an ID are told to exit (a thread that is still waiting for one cannot react)
      auto k = r.Below(alive.size());
      size_t tries = 0;
      while (alive[k]->state.load(kMo) != 1 && tries++ < alive.size()) k = (k + 1) % alive.size();
      if (alive[k]->state.load(kMo) != 1) break;
      alive[k]->released = true;
      alive[k]->skew_ns = max_skew ? r.Below(max_skew) : 0;
      if (stepping && r.Chance(1, 3)) {
        alive[k]->exit_k = static_cast<uint32_t>(1 + r.Below(160));
        alive[k]->exit_ns = r.Range(10000, 120000);
      }
      exiting.push_back(alive[k].get());
      leaving.push_back(std::move(alive[k]));
      alive[k] = std::move(alive.back());
      alive.pop_back();
    }
    // transient threads are only started when at least one ID stays free of holder threads (otherwise they would wait,
    // legitimately, until a holder is told to exit)
    if (n_trans > 0) {
      const size_t base = alive.size();  // (the exiting threads have been taken out already)
      if (base >= kN) {
        n_trans = 0;
      } else if (base + n_hold >= kN) {
        n_hold = kN - 1 - base;
      }
    }
    n_exit = exiting.size();
    if (n_hold + n_trans + n_exit == 0) continue;
    const bool table_full_before = alive.size() + n_exit >= kN;
    const bool fills = !table_full_before && alive.size() + n_exit + n_hold >= kN && n_exit > 0;
    if (fills) ++fills_racing_exits;
    if (table_full_before && alive.size() + n_exit > kN && n_exit > 0) ++exits_with_waiters;
    if (n_trans > 1) ++cascades;
    ++gate_seq;
    for (size_t i = 0; i < n_hold + n_trans; ++i) {
      auto h = std::make_unique<HThread>();
      h->transient = i >= n_hold;
      h->skew_ns = max_skew ? r.Below(max_skew) : 0;
      if (stepping && r.Chance(1, 3)) {
        h->step_k = static_cast<uint32_t>(1 + r.Below(220));
        h->step_ns = r.Range(3000, 60000);
      }
      if (stepping && h->transient && r.Chance(1, 4)) {
        h->exit_k = static_cast<uint32_t>(1 + r.Below(160));
        h->exit_ns = r.Range(10000, 120000);
      }
      h->th = std::thread(HandoffBody, h.get(), gate_seq, probe, ++uid);
      if (h->transient) {
        ++transients_started;
        leaving.push_back(std::move(h));
      } else {
        alive.push_back(std::move(h));
      }
    }
    if (n_hold + n_trans > 0) SpinNs(15000);  // let the new threads reach the gate
    // fire: exits and the gate in random order
    if (r.Chance(1, 2)) {
      g_ho_gate_seq.store(gate_seq, std::memory_order_release);
      for (auto *h : exiting) h->release.store(1, std::memory_order_release), h->release.notify_all();
    } else {
      for (auto *h : exiting) h->release.store(1, std::memory_order_release), h->release.notify_all();
      g_ho_gate_seq.store(gate_seq, std::memory_order_release);
    }
    if (!settle(fills ? "a-claim-that-fills-the-table-raced-with-an-exit" : (table_full_before ? "exits-while-the-table-was-full" : "table-not-full"))) break;
    reap(false);
    if (leaving.size() > 24) reap(true);
    if ((done % 97) == 96) {
      // start afresh: everybody exits
      for (auto &h : alive) {
        h->released = true;
        h->release.store(1, std::memory_order_release), h->release.notify_all();
        leaving.push_back(std::move(h));
      }
      alive.clear();
      reap(true);
      ++resets;
    }
  }
  for (auto &h : alive) {
    h->release.store(1, std::memory_order_release), h->release.notify_all();
    leaving.push_back(std::move(h));
  }
  alive.clear();
  reap(true);
  PreempterStop();
  res.Add("handoff_steps", done);
  res.Add("thread_lifetimes", uid);
  res.Add("claims_that_filled_the_table_while_a_holder_exited", fills_racing_exits);
  res.Add("exits_while_threads_were_waiting_for_an_id", exits_with_waiters);
  res.Add("cascades_of_transient_claimers", cascades);
  res.Add("handoff_resets", resets);
  if (stepping) {
    res.Add("stepper_stalls_at_single_instructions", g_step_stalls.load());
    res.Add("stepper_instructions_single_stepped", g_step_traps.load());
    res.Add("stepper_arms_in_claim_loop", g_ho_claim_arms.load());
    res.Add("stepper_arms_in_exit_path", g_ho_exit_arms.load());
  }
  res.Add("id_reuses_checked", g_reuse_total.load());
  res.counters["evaluations"] = done;
  for (size_t i = 0; i < kN && i < 64; ++i) {
    if (g_slot_claims[i].load()) res.signatures.push_back(Fmt("handoff:N=%zu:slot-%zu-claimed", kN, i));
  }
  res.signatures.push_back(Fmt("handoff:N=%zu", kN));
  res.samples.push_back(Fmt("{\"mode\":\"handoff\",\"capacity\":%zu,\"steps\":%" PRIu64 ",\"threads\":%" PRIu64 "}", kN, done, uid));
  EmitResult(res, "ok");
  return 0;
}

// mode=bigcap: capacities above 2^8 / 2^16.  Pairs of threads are steered onto slot s >= 2^k and onto slot s - 2^k (k = 8,
// 16): an ID that is narrowed somewhere on its way from the reservation table to the caller collides with the thread that
// really owns the low slot.  All threads of a round hold their IDs at the same time.
int
RunBigCap()
{
  Result res;
  Rng r;
  r.Seed(g_cfg.seed * 6151 + kN);
  uint64_t done = 0, pairs_total = 0;
  const uint64_t rounds = kN > 256 ? 400 * g_cfg.scale : 0;
  {
    // A child process inherits the forking thread and its ID: a new thread of the child that probes the same slot must
    // not be given that ID (done first, while this process still has a single thread).
    const auto my_id = FirstClaim();
    fflush(stdout);
    const pid_t pid = fork();
    if (pid == 0) {
      size_t got = ~0ULL;
      std::thread t{[&] {
        tl_probe_start = static_cast<int64_t>((my_id + kN - 1) % kN);
        got = IDManager::GetThreadID();
      }};
      t.join();
      _exit((got == my_id || IDManager::GetThreadID() != my_id) ? 1 : 0);
    }
    int st = 0;
    if (pid > 0 && waitpid(pid, &st, 0) == pid) {
      res.Add("fork_probes", 1);
      if (!WIFEXITED(st) || WEXITSTATUS(st) != 0) {
        Violate("C05", "same-id-held-by-two-running-threads:in-a-forked-child",
                Fmt("capacity=%zu: after fork() the thread that called fork keeps ID %zu in the child, and a new thread of the child that probed that slot "
                    "was given the same ID (or the forking thread's ID changed); child status %d",
                    kN, my_id, st));
      }
    }
  }
  for (uint64_t round = 0; round < rounds && g_log.n_viol.load() == 0; ++round) {
    const int k = (kN > 65536 && r.Chance(2, 3)) ? 16 : 8;
    const uint64_t lo = 1ULL << k;
    const uint64_t span = std::min<uint64_t>(lo, kN - lo);
    const int pairs = 1 + static_cast<int>(r.Below(6));
    std::vector<uint64_t> slots;
    for (int i = 0; i < pairs; ++i) {
      uint64_t x = r.Below(span);
      bool dup = false;
      for (auto v : slots) dup = dup || v == x || v == lo + x;
      if (dup) continue;
      slots.push_back(lo + x);
      slots.push_back(x);
    }
    const size_t T = slots.size();
    std::vector<uint64_t> ids(T, ~0ULL);
    std::atomic<int> gate{0}, holders{0}, release{0};
    std::vector<std::thread> ths;
    for (size_t i = 0; i < T; ++i) {
      ths.emplace_back([&, i] {
        tl_probe_start = static_cast<int64_t>((slots[i] + kN - 1) % kN);
        while (gate.load(std::memory_order_acquire) == 0) {
        }
        const auto id = FirstClaim();
        ids[i] = id;
        holders.fetch_add(1, kMo);
        while (release.load(kMo) == 0) sched_yield();
        if (IDManager::GetThreadID() != id) Violate("C05", "id-not-stable", Fmt("capacity %zu: %zu then %zu", kN, id, IDManager::GetThreadID()));
      });
    }
    gate.store(1, std::memory_order_release);
    const auto tw = NowNs();
    while (holders.load(kMo) < static_cast<int>(T)) {
      if (NowNs() - tw > g_cfg.hang_s * 1000000000ULL) {
        Violate("C14", "GetThreadID-does-not-return:large-capacity", Fmt("capacity=%zu: only %d of %zu threads obtained an ID within %" PRIu64 " s", kN, holders.load(), T, g_cfg.hang_s));
        res.counters["evaluations"] = done;
        EmitResult(res, "hang");
        fflush(stdout);
        _exit(0);
      }
      sched_yield();
    }
    for (size_t i = 0; i < T; ++i) {
      if (ids[i] >= kN) {
        Violate("C05", "id-out-of-range", Fmt("GetThreadID returned %" PRIu64 " with capacity %zu (thread steered onto slot %" PRIu64 ")", ids[i], kN, slots[i]));
      }
      for (size_t j = 0; j < i; ++j) {
        if (ids[i] == ids[j]) {
          Violate("C05", "same-id-held-by-two-running-threads:capacity-above-2^8-or-2^16",
                  Fmt("capacity=%zu: the threads steered onto the free slots %" PRIu64 " and %" PRIu64 " both hold ID %" PRIu64 " at the same time", kN, slots[j],
                      slots[i], ids[i]));
        }
      }
    }
    release.store(1, kMo);
    for (auto &t : ths) t.join();
    pairs_total += T / 2;
    ++done;
  }
  res.Add("large_capacity_rounds", done);
  res.Add("large_capacity_slot_pairs", pairs_total);
  res.Add("thread_lifetimes", pairs_total * 2);
  res.counters["evaluations"] = pairs_total * 2;
  res.signatures.push_back(Fmt("bigcap:N=%zu", kN));
  res.samples.push_back(Fmt("{\"mode\":\"bigcap\",\"capacity\":%zu,\"rounds\":%" PRIu64 "}", kN, done));
  EmitResult(res, "ok");
  return 0;
}
}  // namespace idm

/*##############################################################################
 * mode=epoch : C04, C16, C17 (concurrent)
 *############################################################################*/
namespace ep
{
alignas(64) unsigned char g_em_storage[sizeof(EpochManager)];
EpochManager *g_em = nullptr;

constexpr int kMaxWorkers = 64;
constexpr uint64_t kDoneFlag = 1ULL << 63;
struct alignas(64) Reg {
  std::atomic<uint64_t> id{0};
  std::atomic<uint64_t> epoch{0};
  std::atomic<uint64_t> flags{0};  // bit0: the thread runs on an ID used by an exited thread before
  std::atomic<uint64_t> done{0};
  std::atomic<uint64_t> thread_id{~0ULL};
};
Reg g_reg[kMaxWorkers];
std::atomic<uint64_t> g_id_gen[kN > 0 ? kN : 1];
std::atomic<uint64_t> g_guard_uid{0};
std::atomic<bool> g_stop{false};
std::atomic<int> g_pause{0}, g_paused{0}, g_running{0};
std::atomic<uint64_t> g_stale_publications{0}, g_long_lookup_stalls{0};
std::atomic<uint64_t> g_lists_checked{0}, g_lists_after_boundary{0}, g_guards{0}, g_pairs_checked{0}, g_pairs_reused_id{0};
std::atomic<uint64_t> g_mono_checks{0}, g_thread_replacements{0}, g_replacements_on_same_id{0};
std::atomic<uint64_t> g_max_seen_epoch{0};

thread_local uint64_t tl_gap_epoch = 0;          // global epoch observed when the enter gap was reached
thread_local bool tl_stale_publication = false;  // the epoch published by the last enter was stale by >= 2
thread_local uint64_t tl_step_upper = 0;  // upper bits of the oldest list node the current lookup may stand on without protecting it (0: no lookup)
thread_local uint64_t tl_entered_epoch = 0;  // value published by this thread's last EnterEpoch
thread_local uint64_t tl_lookup_begin_epoch = 0;  // global epoch right before the library loads the list head
thread_local uint64_t tl_lookup_begin_frees = 0;  // list nodes retired so far, sampled at the same moment
thread_local bool tl_long_lookup = false;
thread_local bool tl_in_gpe = false;
thread_local int tl_worker = -1;
thread_local EpochManager *tl_em = nullptr;  // mode=epochduo: the manager the thread is calling into (classification)
thread_local int tl_duo_m = -1;
std::atomic<uint64_t> g_stale_m[2];
std::atomic<uint64_t> g_fwd_begin_epoch[2];
bool g_ep_step = false;
std::atomic<uint64_t> g_ep_exit_arms{0};  // global epoch from which the latest ForwardGlobalEpoch of a manager started
std::atomic<bool> g_fast_hold{false};  // sub-workload D: short guard holds, short thread lifetimes

inline EpochManager *
CurEm()
{
  return tl_em != nullptr ? tl_em : g_em;
}

// A list node covers the epochs [B, B + 255] (B = its upper bits) and is unlinked by the forward that starts at global
// epoch B + 256 unless a guard pins one of its epochs; the global epoch is published after the unlinking.  The lookup
// of a guard with epoch e walks from the newest node down to the node of e; the oldest node it can stand on without
// protecting it has B = (e & ~255) + 256.  A node can only be retired under the traversal by a forward that starts
// while the traversal is under way, i.e. from a multiple of 256 M with M >= (e & ~255) + 512 and
// (global epoch when the lookup began) <= M <= (global epoch when it returned).  "When the lookup began" is sampled by
// the post-delay callback of the hook in front of the lookup, i.e. after any injected stall there and before the
// library loads the list head - so a stall *before* the lookup (harmless in the unchanged code) is not classified as a
// stall inside it.  The classification reads no list node memory: a lookup stalled between loading a node pointer and
// the next hook would make the hook read freed memory.
void
ClassifyLookup()
{
  const auto *em = CurEm();
  if (em == nullptr || tl_step_upper == 0 || tl_long_lookup) return;
  constexpr uint64_t kCap = EpochManager::kCapacity;
  const auto first_m = std::max<uint64_t>(tl_step_upper + kCap, (tl_lookup_begin_epoch + kCap - 1) / kCap * kCap);
  // ... or any list node at all was retired while the lookup was under way: nodes older than that linger as long as
  // some other thread pins one of their epochs and are retired whenever that pin goes away
  if (em->GetCurrentEpoch() >= first_m || g_aligned_frees.load(std::memory_order_seq_cst) != tl_lookup_begin_frees) {
    tl_long_lookup = true;
    g_long_lookup_stalls.fetch_add(1, kRlx);
  }
}

void
PointPostCb(int id, const void *)
{
  if (id != ::dbgroup::verif::kEpochGuardCreated) return;
  const auto *em = CurEm();
  if (em == nullptr) return;
  tl_lookup_begin_epoch = em->GetCurrentEpoch();
  tl_lookup_begin_frees = g_aligned_frees.load(std::memory_order_seq_cst);
  // a lookup for the epoch published last begins: upper bits of the oldest node it may stand on unprotected
  tl_step_upper = (tl_entered_epoch & ~static_cast<uint64_t>(EpochManager::kCapacity - 1)) + EpochManager::kCapacity;
}

void
PointCb(int id, const void *obj)
{
  using namespace ::dbgroup::verif;
  const auto *em = CurEm();
  if (em == nullptr) return;
  switch (id) {
    case kEpochEnterGap: tl_gap_epoch = em->GetCurrentEpoch(); break;
    case kEpochEntered: {
      // obj is the Epoch whose entered_ was just published: if the global epoch is already two or more ahead of the
      // published value, two complete forwards can have missed the pin (the value was read, then the thread was
      // stalled - by an injected delay or by the scheduler - before it published it)
      // The pin is also lost with less than two forwards in between: a forward that starts from an epoch g of a newer
      // 256-epoch range than e (its list {g+1, g, pins} does not reference e's node) and scans this thread's slot
      // before the publication retires e's node before it publishes g+1.  Every forward that can have scanned the slot
      // before the publication had begun by now, so the latest begin epoch decides.
      const auto e = static_cast<const ::dbgroup::thread::component::Epoch *>(obj)->GetProtectedEpoch();
      tl_entered_epoch = e;
      constexpr uint64_t kUp = ~static_cast<uint64_t>(EpochManager::kCapacity - 1);
      std::atomic_thread_fence(std::memory_order_seq_cst);  // the publication is visible before the begin epoch is read
      const auto begun = g_fwd_begin_epoch[tl_duo_m > 0 ? 1 : 0].load(kMo);
      if (e != std::numeric_limits<size_t>::max() && (em->GetCurrentEpoch() >= e + 2 || (begun & kUp) > (e & kUp))) {
        tl_stale_publication = true;
        g_stale_publications.fetch_add(1, kRlx);
        if (tl_duo_m >= 0) g_stale_m[tl_duo_m].fetch_add(1, kRlx);
      }
      break;
    }
    case kEpochLookupStep: ClassifyLookup(); break;
    case kIdExitBegin:
      // instruction stepper in the exit path of a worker: a stall at one instruction boundary of ~HeartBeater while
      // the churner starts the successor onto the ID being vacated
      if (g_ep_step && (t_chaos.rng.Next() & 1) == 0) {
        g_ep_exit_arms.fetch_add(1, kRlx);
        StepArm(1 + t_chaos.rng.Below(160), t_chaos.rng.Range(40000, 400000));
      }
      break;
    case kIdExitEnd:
      if (g_ep_step) StepDisarm();  // never step into the C library's thread exit (it blocks signals)
      break;
    case kEpochForwardBegin: g_fwd_begin_epoch[tl_duo_m > 0 ? 1 : 0].store(em->GetCurrentEpoch(), kMo); break;
    default: break;
  }
}

// classification of a C17 symptom by the history that was observed
const char *
HistoryClass()
{
  if (tl_stale_publication) return "guard-epoch-was-already-stale-when-it-was-published";
  if (tl_long_lookup) return "lookup-stalled-while-list-nodes-were-retired";
  if (g_stale_publications.load() != 0) return "after-another-thread-published-a-stale-epoch";
  return "no-stall-observed";
}

void
CrashReport(const char *what, int sig)
{
  static std::atomic<int> once{0};
  if (once.exchange(1) != 0) {
    for (;;) pause();  // another thread is already writing the report and will end the process
  }
  if (tl_in_gpe) ClassifyLookup();
  const char *hc = tl_in_gpe ? HistoryClass() : "outside-GetProtectedEpochs";
  char buf[1536];
  const int n = snprintf(buf, sizeof buf,
                         "RESULT {\"status\":\"crash\",\"counters\":{\"lists_checked\":%" PRIu64 ",\"stale_epoch_publications\":%" PRIu64
                         ",\"lookups_stalled_across_node_retirement\":%" PRIu64 ",\"evaluations\":%" PRIu64
                         "},\"strings\":{},\"chaos\":{},\"samples\":[],\"signatures\":[\"epoch:N=%zu:sub=%s\"],"
                         "\"violations\":[{\"prop\":\"C17\",\"key\":\"epoch:GetProtectedEpochs:%s\",\"detail\":\"%s (signal %d) in worker %d %s "
                         "GetProtectedEpochs; capacity %zu sub-workload %s; history class: %s (published epoch %" PRIu64 ", global epoch before the lookup %" PRIu64
                         ", now %" PRIu64 ", oldest unprotected node base %" PRIu64 ")\",\"count\":1}],\"observations\":{}}\n",
                         g_lists_checked.load(), g_stale_publications.load(), g_long_lookup_stalls.load(), g_lists_checked.load() + 1, kN,
                         g_cfg.sub.c_str(), hc, what, sig, tl_worker, tl_in_gpe ? "inside" : "outside", kN, g_cfg.sub.c_str(), hc, tl_entered_epoch,
                         tl_lookup_begin_epoch, CurEm() != nullptr ? static_cast<uint64_t>(CurEm()->GetCurrentEpoch()) : 0, tl_step_upper);
  if (n > 0) {
    const auto w = write(1, buf, static_cast<size_t>(n));
    (void)w;
  }
  _exit(0);
}

void
SegvHandler(int sig, siginfo_t *, void *)
{
  CrashReport("invalid memory access", sig);
}

void
ReportList(const char *symptom, const std::string &detail)
{
  const auto hc = HistoryClass();
  Violate("C17", Fmt("epoch:GetProtectedEpochs:%s", hc),
          Fmt("capacity=%zu sub-workload=%s symptom=%s: %s; history class: %s", kN, g_cfg.sub.c_str(), symptom, detail.c_str(), hc));
}

std::string
ListStr(const std::vector<size_t> &v)
{
  std::string s = "[";
  for (size_t i = 0; i < v.size() && i < 12; ++i) s += Fmt("%s%zu", i ? "," : "", v[i]);
  if (v.size() > 12) s += ",...";
  return s + "]";
}

void
HoldGuard(Rng &r)
{
  const auto hold = r.Below(8);
  if (g_fast_hold.load(kRlx)) {
    SpinNs(hold < 6 ? r.Below(20000) : r.Range(20000, 150000));
  } else if (hold < 3) {
    SpinNs(r.Below(3000));
  } else if (hold < 6) {
    SpinNs(r.Below(200000));
  } else {
    SleepNs(r.Range(100000, 3000000));
  }
  ClientPoint(kCpUser);
}

void
Worker(int w, uint64_t seed, uint64_t budget, int64_t probe_start)
{
  static thread_local ChaosMerger merger;
  (void)merger;
  ChaosThreadBegin(w, seed);
  g_running.fetch_add(1, kMo);
  tl_worker = w;
  tl_probe_start = probe_start;
  Rng r;
  r.Seed(seed * 131 + static_cast<uint64_t>(w));
  auto &em = *g_em;
  uint64_t last_cur = 0;
  bool reused = false;
  bool first = true;
  for (uint64_t n = 0; n < budget && !g_stop.load(kRlx); ++n) {
    if (g_pause.load(kMo) != 0) {
      g_paused.fetch_add(1, kMo);
      while (g_pause.load(kMo) != 0 && !g_stop.load(kRlx)) sched_yield();
      g_paused.fetch_sub(1, kMo);
    }
    // C16: monotone reads
    {
      const auto m = em.GetMinEpoch();
      const auto c = em.GetCurrentEpoch();
      g_mono_checks.fetch_add(1, kRlx);
      if (m > c) Violate("C16", "GetMinEpoch-exceeds-later-GetCurrentEpoch", Fmt("capacity=%zu GetMinEpoch()=%zu then GetCurrentEpoch()=%zu", kN, m, c));
      if (c < last_cur) Violate("C16", "GetCurrentEpoch-decreased", Fmt("capacity=%zu worker %d read %" PRIu64 " then %zu", kN, w, last_cur, c));
      last_cur = c;
      auto mx = g_max_seen_epoch.load(kMo);
      while (c > mx && !g_max_seen_epoch.compare_exchange_weak(mx, c)) {
      }
    }
    t_chaos.cur_op = 3;
    tl_stale_publication = false;
    tl_long_lookup = false;
    tl_gap_epoch = 0;
    if (r.Below(10) < 4) {
      // plain guard, held across forwards (C04); the guard object is produced in one of several ways
      EpochGuard g{};
      switch (r.Below(4)) {
        case 0: g = em.CreateEpochGuard(); break;  // move assignment onto an empty guard
        case 1: {
          EpochGuard tmp{em.CreateEpochGuard()};
          EpochGuard tmp2{std::move(tmp)};  // move construction
          g = std::move(tmp2);              // move assignment from a named guard
          break;
        }
        case 2: {
          auto tmp = em.CreateEpochGuard();
          EpochGuard moved{std::move(tmp)};
          g = std::move(moved);
          break;
        }
        default: {
          EpochGuard direct = em.CreateEpochGuard();
          g = std::move(direct);
          break;
        }
      }
      if (first) {
        first = false;
        const auto tid = IDManager::GetThreadID();
        reused = g_id_gen[tid].fetch_add(1) > 0;
        if (g_reg[w].thread_id.exchange(tid) == tid) g_replacements_on_same_id.fetch_add(1, kRlx);
      }
      const auto e = g.GetProtectedEpoch();
      g_guards.fetch_add(1, kRlx);
      const auto uid = g_guard_uid.fetch_add(1) + 1;
      g_reg[w].epoch.store(e, kMo);
      g_reg[w].flags.store(reused ? 1 : 0, kMo);
      g_reg[w].id.store(uid, kMo);
      HoldGuard(r);
      if (g.GetProtectedEpoch() != e) Violate("C04", "guard-epoch-changed", Fmt("guard reported %zu then %zu", e, g.GetProtectedEpoch()));
      g_reg[w].id.store(0, kMo);
      if (r.Chance(1, 4)) {
        EpochGuard g2{std::move(g)};
        (void)g2;
      }
    } else {
      // GetProtectedEpochs (C17); the guard is also registered for C04
      t_chaos.cur_op = 5;
      tl_step_upper = 0;
      try {
        tl_in_gpe = true;
        auto &&[g, list] = em.GetProtectedEpochs();
        ClassifyLookup();
        const std::vector<size_t> copy = list;  // a fault while copying a freed list belongs to the lookup as well
        tl_in_gpe = false;
        if (first) {
          first = false;
          const auto tid = IDManager::GetThreadID();
          reused = g_id_gen[tid].fetch_add(1) > 0;
          if (g_reg[w].thread_id.exchange(tid) == tid) g_replacements_on_same_id.fetch_add(1, kRlx);
        }
        const auto e = g.GetProtectedEpoch();
        g_lists_checked.fetch_add(1, kRlx);
        const auto uid = g_guard_uid.fetch_add(1) + 1;
        g_reg[w].epoch.store(e, kMo);
        g_reg[w].flags.store(reused ? 1 : 0, kMo);
        g_reg[w].id.store(uid, kMo);
        if (copy.empty()) {
          ReportList("empty-list", Fmt("guard epoch %zu", e));
        } else {
          if (copy.front() != e) ReportList("first-element-differs-from-guard-epoch", Fmt("guard epoch %zu, list %s", e, ListStr(copy).c_str()));
          for (size_t i = 1; i < copy.size(); ++i) {
            if (copy[i] >= copy[i - 1]) {
              ReportList("not-strictly-descending", Fmt("guard epoch %zu, list %s", e, ListStr(copy).c_str()));
              break;
            }
          }
          if (e > EpochManager::kInitialEpoch && copy.front() == e && (copy.size() < 2 || copy[1] != e - 1)) {
            ReportList("preceding-epoch-missing", Fmt("guard epoch %zu, list %s", e, ListStr(copy).c_str()));
          }
        }
        const auto e0 = em.GetCurrentEpoch();
        HoldGuard(r);
        if (em.GetCurrentEpoch() >= e0 + EpochManager::kCapacity) g_lists_after_boundary.fetch_add(1, kRlx);
        tl_in_gpe = true;
        const bool same = (list == copy);
        const std::string now_list = same ? std::string() : ListStr(list);
        tl_in_gpe = false;
        if (!same) {
          ReportList("list-changed-while-guard-alive", Fmt("guard epoch %zu, list was %s, now %s", e, ListStr(copy).c_str(), now_list.c_str()));
        }
        g_reg[w].id.store(0, kMo);
      } catch (const std::exception &ex) {
        ClassifyLookup();
        tl_in_gpe = false;
        g_reg[w].id.store(0, kMo);
        g_lists_checked.fetch_add(1, kRlx);
        ReportList("exception-from-GetProtectedEpochs-or-from-reading-the-list", ex.what());
      }
    }
    g_ops_done.fetch_add(1, kRlx);
  }
  g_reg[w].id.store(0, kMo);
  g_running.fetch_sub(1, kMo);
  g_reg[w].done.store(1, kMo);
}

struct Snap {
  uint64_t id[kMaxWorkers];
  uint64_t epoch[kMaxWorkers];
  uint64_t flags[kMaxWorkers];
};
void
TakeSnap(Snap &s, int workers)
{
  for (int w = 0; w < workers; ++w) {
    const auto id = g_reg[w].id.load(kMo);
    const auto ep = g_reg[w].epoch.load(kMo);
    const auto fl = g_reg[w].flags.load(kMo);
    const auto id2 = g_reg[w].id.load(kMo);
    s.id[w] = (id == id2) ? id : 0;
    s.epoch[w] = ep;
    s.flags[w] = fl;
  }
}

int
Run()
{
  g_point_cb = &PointCb;
  g_point_post_cb = &PointPostCb;
  struct sigaction sa {};
  sa.sa_sigaction = &SegvHandler;
  sa.sa_flags = SA_SIGINFO;
  sigaction(SIGSEGV, &sa, nullptr);
  sigaction(SIGBUS, &sa, nullptr);
  if (VERIF_STEPPER && g_cfg.step != 0) {
    StepperInstall();
    g_ep_step = true;
  }

  Rng r;
  r.Seed(g_cfg.seed * 7777 + kN);
  {
    using namespace ::dbgroup::verif;
    std::vector<int> cand = {kEpochEntered,    kEpochGuardCreated,  kEpochForwardBegin, kEpochForwardCollected, kEpochForwardRetired,
                             kEpochForwardEnd, kEpochBindHeartbeat, kEpochScanSlot,     kIdExitBegin,           kIdExitMiddle,
                             kIdExitEnd,       kIdProbe,            kCpUser};
    MakePlan(r, cand, 2);
    g_plan.prob[kIdExitEnd] = 30000;
    g_plan.prob[kIdExitMiddle] = 30000;
    g_plan.prob[kEpochEnterGap] = 0;
    g_plan.prob[kEpochLookupStep] = 0;
    if (g_cfg.fwdchaos == 0) {
      for (int p : {kEpochForwardBegin, kEpochForwardCollected, kEpochForwardRetired, kEpochForwardEnd}) g_plan.prob[p] = 30;
      g_plan.prob[kEpochScanSlot] = 60;
    } else {
      g_plan.prob[kEpochScanSlot] = std::max<uint32_t>(g_plan.prob[kEpochScanSlot], 4000);
    }
    if (g_cfg.sub == "B") {
      g_plan.prob[kEpochEnterGap] = 5000;
      g_plan.th_yield = 0;
      g_plan.th_spin = 0;
      g_plan.th_sleep = 100;
    } else if (g_cfg.sub == "D") {
      // thread churn at full speed while the coordinator is parked inside its scan of the per-thread slots: workers live
      // for a handful of operations, exit quickly, and their successors are started at once onto the vacated ID
      g_fast_hold.store(true);
      for (int p : {kEpochForwardBegin, kEpochForwardCollected, kEpochForwardRetired, kEpochForwardEnd}) g_plan.prob[p] = 30;
      g_plan.prob[kEpochScanSlot] = static_cast<uint32_t>(r.Range(3000, 16000));
      for (int p : {kIdExitBegin, kIdExitMiddle, kIdExitEnd}) g_plan.prob[p] = 2500;
      g_plan.th_yield = 0;
      g_plan.th_spin = 64;
      g_plan.th_sleep = 256;
      g_plan.sleep_min_ns = 60000;
      g_plan.sleep_max_ns = 600000;
    } else if (g_cfg.sub == "C") {
      g_plan.prob[kEpochLookupStep] = 30000;
      g_plan.th_yield = 0;
      g_plan.th_spin = 0;
      g_plan.th_sleep = 60;
      g_plan.long_min_ns = 1000000;
      g_plan.long_max_ns = 8000000;
    }
  }

  g_em = new (g_em_storage) EpochManager{};
  auto &em = *g_em;
  static thread_local ChaosMerger merger;
  (void)merger;
  ChaosThreadBegin(63, g_cfg.seed);
  t_chaos.cur_op = 4;
  t_chaos.prob_div = (g_cfg.fwdchaos || g_cfg.sub == "D") ? 1 : 32;  // the coordinator mostly runs at full speed

  Result res;
  if (em.GetCurrentEpoch() != EpochManager::kInitialEpoch) {
    Violate("C16", "initial-epoch-wrong", Fmt("GetCurrentEpoch()=%zu initially", em.GetCurrentEpoch()));
  }
  // the coordinator takes its ID first so that the workers use the remaining N-1
  (void)IDManager::GetThreadID();
  const int workers = static_cast<int>(std::min<size_t>(kN - 1, 15));
  const uint64_t forwards = ~0ULL;
  const uint64_t target_ops = 1500ULL * static_cast<uint64_t>(workers) * g_cfg.scale;  // worker operations
  const uint64_t min_forwards = (g_cfg.sub == "D" ? 4000 : 20000) * g_cfg.scale;
  std::vector<std::thread> ths(workers);
  std::vector<std::thread> zombies;
  std::vector<uint64_t> gen(workers, 0);
  Rng cr;  // the churner's generator (the coordinator keeps r)
  cr.Seed(g_cfg.seed * 919 + kN);
  const bool fast = g_cfg.sub == "D";
  auto spawn = [&](int w, int64_t probe) {
    const uint64_t budget = fast ? 2 + cr.Below(14) : 10 + cr.Below(300);
    g_reg[w].done.store(0, kMo);
    ths[w] = std::thread(Worker, w, g_cfg.seed * 1000 + (++gen[w]) * 64 + w, budget, probe);
  };
  for (int w = 0; w < workers; ++w) spawn(w, -1);
  // churn: a dedicated thread (it takes no ID) replaces a worker that finished its budget at once, while the old thread
  // may still be in its exit path and whatever the coordinator is doing; the replacement is steered onto the vacated ID
  std::thread churner{[&] {
    while (!g_stop.load(kRlx) && workers > 0) {
      bool any_done = false;
      for (int w = 0; w < workers && !g_stop.load(kRlx); ++w) {
        if (g_reg[w].done.load(kMo) == 0) continue;
        any_done = true;
        zombies.push_back(std::move(ths[w]));
        g_thread_replacements.fetch_add(1, kRlx);
        const auto old_id = g_reg[w].thread_id.load(kMo);
        const int64_t probe = (old_id == ~0ULL || cr.Chance(1, 4)) ? -1 : static_cast<int64_t>((old_id + kN - 1) % kN);
        spawn(w, probe);
        if (zombies.size() > 8) {
          for (auto &z : zombies) z.join();
          zombies.clear();
        }
      }
      if (!any_done) {
        if (fast) {
          sched_yield();
        } else {
          SleepNs(50000);
        }
      }
    }
  }};

  uint64_t prev = em.GetCurrentEpoch();
  uint64_t quiescent_checks = 0;
  Snap s1{}, s2{};
  const auto t_begin = NowNs();
  const uint64_t time_cap_ns = (g_cfg.scale >= 8 ? 300ULL : 45ULL) * 1000000000ULL;
  uint64_t f = 0;
  for (; f < forwards; ++f) {
    if ((f & 255) == 0) {
      if (NowNs() - t_begin > time_cap_ns) break;
      if (f >= min_forwards && g_ops_done.load(kRlx) >= target_ops) break;
    }
    if (g_cfg.pace_ns != 0 && workers > 0) SpinNs(r.Below(g_cfg.pace_ns + 1));
    TakeSnap(s1, workers);
    em.ForwardGlobalEpoch();
    TakeSnap(s2, workers);
    const auto cur = em.GetCurrentEpoch();
    if (cur != prev + 1) {
      Violate("C16", "epoch-did-not-advance-by-exactly-one",
              Fmt("capacity=%zu GetCurrentEpoch()=%zu after ForwardGlobalEpoch, previous %" PRIu64, kN, cur, prev));
    }
    prev = cur;
    if (g_max_seen_epoch.load(kMo) > cur) {
      Violate("C16", "worker-saw-epoch-beyond-coordinator", Fmt("a worker read epoch %" PRIu64 " but the coordinator reads %zu", g_max_seen_epoch.load(), cur));
    }
    // C04: guards alive across the whole forward must be in the list published for the new epoch
    bool any = false;
    for (int w = 0; w < workers; ++w) any = any || (s1.id[w] != 0 && s1.id[w] == s2.id[w]);
    if (any || (f % 5) == 0 || workers == 0) {
      std::vector<size_t> list;
      size_t ge = 0;
      try {
        tl_in_gpe = true;
        tl_step_upper = 0;
        tl_long_lookup = false;
        auto &&[g, l] = em.GetProtectedEpochs();
        list = l;
        tl_in_gpe = false;
        ge = g.GetProtectedEpoch();
      } catch (const std::exception &ex) {
        tl_in_gpe = false;
        Violate("C17", Fmt("epoch:GetProtectedEpochs:%s", HistoryClass()), Fmt("coordinator: exception %s", ex.what()));
        continue;
      }
      const auto m = em.GetMinEpoch();
      if (ge != cur || list.empty() || list.front() != cur) {
        Violate("C17", Fmt("epoch:GetProtectedEpochs:%s", HistoryClass()),
                Fmt("coordinator (sole forwarder): guard epoch %zu, current %zu, list %s", ge, cur, ListStr(list).c_str()));
      }
      for (size_t i = 1; i < list.size(); ++i) {
        if (list[i] >= list[i - 1]) {
          Violate("C17", Fmt("epoch:GetProtectedEpochs:%s", HistoryClass()), Fmt("coordinator: list not strictly descending %s", ListStr(list).c_str()));
          break;
        }
      }
      if (list.size() < 2 || list[1] != cur - 1) {
        Violate("C17", Fmt("epoch:GetProtectedEpochs:%s", HistoryClass()), Fmt("coordinator: list for %zu lacks the preceding epoch: %s", cur, ListStr(list).c_str()));
      }
      g_lists_checked.fetch_add(1, kRlx);
      for (int w = 0; w < workers; ++w) {
        if (s1.id[w] == 0 || s1.id[w] != s2.id[w]) continue;
        g_pairs_checked.fetch_add(1, kRlx);
        if (s1.flags[w] & 1) g_pairs_reused_id.fetch_add(1, kRlx);
        const auto e = s1.epoch[w];
        const bool in = std::find(list.begin(), list.end(), e) != list.end();
        if (!in || m > e) {
          Violate("C04", Fmt("live-guard-epoch-not-protected:%s", (s1.flags[w] & 1) ? "thread-on-reused-id" : "thread-on-fresh-id"),
                  Fmt("capacity=%zu: guard #%" PRIu64 " (epoch %" PRIu64 ", worker %d, %s) was registered before ForwardGlobalEpoch "
                      "started and is still registered after it returned, but the list published for epoch %zu is %s and "
                      "GetMinEpoch()=%zu",
                      kN, s1.id[w], e, w, (s1.flags[w] & 1) ? "its thread runs on an ID used by an exited thread before" : "fresh ID", cur,
                      ListStr(list).c_str(), m));
        }
      }
    }
    // C16 quiescent rule (only in the sub-workload without injected stalls inside enter/lookup)
    if (g_cfg.sub == "A" && (f % 2000) == 1999 && workers > 0) {
      g_pause.store(1, kMo);
      const auto tq = NowNs();
      bool quiet = false;
      while (NowNs() - tq < 3000000000ULL) {
        if (g_paused.load(kMo) == g_running.load(kMo)) {
          bool none = true;
          for (int w = 0; w < workers; ++w) none = none && g_reg[w].id.load(kMo) == 0;
          if (none && g_paused.load(kMo) == g_running.load(kMo)) {
            quiet = true;
            break;
          }
        }
        sched_yield();
      }
      if (quiet) {
        em.ForwardGlobalEpoch();
        const auto c2 = em.GetCurrentEpoch();
        if (c2 != prev + 1) Violate("C16", "epoch-did-not-advance-by-exactly-one", Fmt("%zu after %" PRIu64, c2, prev));
        prev = c2;
        ++f;
        std::vector<size_t> list;
        {
          auto &&[g, l] = em.GetProtectedEpochs();
          list = l;
        }
        const auto m = em.GetMinEpoch();
        if (list != std::vector<size_t>{c2, c2 - 1} || m != c2 - 1) {
          Violate("C16", "destroyed-guards-still-pin-after-a-complete-forward",
                  Fmt("capacity=%zu: all guards destroyed, then one complete ForwardGlobalEpoch to %zu: list %s, GetMinEpoch()=%zu "
                      "(expected [%zu,%zu] and %zu)",
                      kN, c2, ListStr(list).c_str(), m, c2, c2 - 1, c2 - 1));
        }
        ++quiescent_checks;
      }
      g_pause.store(0, kMo);
    }
    if ((f & 63) == 0) ClientPoint(kCpUser);
  }
  g_stop.store(true);
  g_pause.store(0);
  churner.join();
  for (auto &t : ths) {
    if (t.joinable()) t.join();
  }
  for (auto &z : zombies) z.join();
  res.Add("forwards", f);
  res.counters["evaluations"] = f + g_lists_checked.load() + g_guards.load();
  res.Add("guards_created", g_guards.load());
  res.Add("lists_checked", g_lists_checked.load());
  res.Add("lists_held_across_a_node_boundary", g_lists_after_boundary.load());
  res.Add("guard_forward_pairs_checked", g_pairs_checked.load());
  res.Add("guard_forward_pairs_on_reused_id", g_pairs_reused_id.load());
  res.Add("thread_replacements", g_thread_replacements.load());
  res.Add("thread_replacements_on_the_vacated_id", g_replacements_on_same_id.load());
  res.Add("monotonic_read_checks", g_mono_checks.load());
  res.Add("quiescent_checks", quiescent_checks);
  res.Add("stale_epoch_publications", g_stale_publications.load());
  res.Add("lookups_stalled_across_node_retirement", g_long_lookup_stalls.load());
  if (g_ep_step) {
    res.Add("stepper_arms_in_exit_path", g_ep_exit_arms.load());
    res.Add("stepper_stalls_at_single_instructions", g_step_stalls.load());
  }
  PreempterStop();
  res.counters["max_final_epoch"] = prev;
  res.signatures.push_back(Fmt("epoch:N=%zu:sub=%s", kN, g_cfg.sub.c_str()));
  if (g_pairs_reused_id.load()) res.signatures.push_back(Fmt("epoch:N=%zu:guard-on-reused-id-checked", kN));
  if (g_lists_after_boundary.load()) res.signatures.push_back(Fmt("epoch:N=%zu:list-held-across-node-boundary", kN));
  if (quiescent_checks) res.signatures.push_back(Fmt("epoch:N=%zu:quiescent-forward-checked", kN));
  if (g_stale_publications.load()) res.signatures.push_back(Fmt("epoch:N=%zu:stale-publication-produced", kN));
  if (g_long_lookup_stalls.load()) res.signatures.push_back(Fmt("epoch:N=%zu:lookup-stall-produced", kN));
  res.Add("pace_ns_" + std::to_string(g_cfg.pace_ns), 1);
  res.samples.push_back(Fmt("{\"capacity\":%zu,\"sub\":\"%s\",\"workers\":%d,\"forwards\":%" PRIu64 ",\"final_epoch\":%" PRIu64 ",\"seed\":%" PRIu64 "}", kN,
                            g_cfg.sub.c_str(), workers, f, prev, g_cfg.seed));
  ChaosThreadEnd();
  g_em->~EpochManager();
  g_em = nullptr;
  EmitResult(res, "ok");
  return 0;
}

// mode=epochstart: many fresh managers; persistent workers (each already owns its thread ID) make their FIRST
// CreateEpochGuard on the manager at the same instant (spin barrier plus a few nanoseconds of random skew), hold the
// guard, and the coordinator checks C04 over a few forwards.  Every fourth round uses fresh threads instead, whose
// first call also claims the thread ID.
int
RunStart()
{
  g_point_cb = nullptr;
  Result res;
  Rng r;
  r.Seed(g_cfg.seed * 31 + kN);
  // odd seeds: all IDs but the coordinator's go to persistent workers; even seeds: half of them, the rest is used by
  // rounds with fresh threads
  const int avail = static_cast<int>(std::min<size_t>(kN - 1, 15));
  const int workers = (g_cfg.seed & 1) ? avail : (avail + 1) / 2;
  const int fresh_cap = static_cast<int>(std::min<size_t>(kN - 1 - workers, 15));
  const uint64_t rounds = workers == 0 ? 0 : 6000 * g_cfg.scale;
  uint64_t pairs = 0, done = 0, fresh_rounds = 0, survivor_pairs = 0;
  std::atomic<uint64_t> gate{0}, release{0};
  std::atomic<int> created{0}, finished{0};
  std::atomic<bool> quit{false};
  std::atomic<EpochManager *> cur_em{nullptr};
  std::vector<uint64_t> epochs(16, 0);
  std::vector<uint64_t> skew(16, 0);
  std::atomic<uint64_t> release_w[16];
  for (auto &x : release_w) x.store(0);
  auto body = [&](int w, uint64_t round) {
    while (gate.load(std::memory_order_acquire) < round) {
    }
    auto *em = cur_em.load(kMo);
    SpinNs(skew[w]);
    {
      EpochGuard g = em->CreateEpochGuard();
      epochs[w] = g.GetProtectedEpoch();
      created.fetch_add(1, kMo);
      while (release.load(kMo) < round && release_w[w].load(kMo) < round) sched_yield();
    }
    finished.fetch_add(1, kMo);
  };
  std::atomic<uint64_t> announce{0};
  std::vector<std::thread> pers;
  for (int w = 0; w < workers; ++w) {
    pers.emplace_back([&, w] {
      if (g_preempt_run.load(kRlx)) PreemptRegister();
      (void)IDManager::GetThreadID();
      uint64_t seen = 0;
      while (true) {
        // one word carries the round number and the participants: a worker that is slow to look must not combine the
        // round it woke up for with the participants of a later round
        uint64_t a = 0;
        while ((a = announce.load(std::memory_order_acquire)) == seen && !quit.load(kRlx)) sched_yield();
        if (quit.load(kRlx)) break;
        seen = a;
        if ((a & 0xFFFF) & (1ULL << w)) body(w, a >> 16);
      }
      PreemptUnregister();
    });
  }
  const auto t0 = NowNs();
  for (uint64_t round = 1; round <= rounds; ++round) {
    if ((round & 127) == 0 && NowNs() - t0 > 60ULL * 1000000000ULL) break;
    auto *em = new (g_em_storage) EpochManager{};
    g_em = em;
    (void)IDManager::GetThreadID();
    cur_em.store(em, kMo);
    created.store(0, kMo);
    finished.store(0, kMo);
    // fresh threads (every 16th round, such rounds are ~20x more expensive): the persistent workers keep their IDs, so
    // this needs spare IDs
    const bool fresh = (round % 16) == 0 && fresh_cap >= 1;
    const int cnt = fresh ? fresh_cap : workers;
    // participants: all, or a random subset of at least two (one when there is only one)
    uint64_t mask = (1ULL << cnt) - 1;
    if (cnt > 2 && r.Chance(1, 2)) {
      mask = 0;
      while (__builtin_popcountll(mask) < 2) mask |= 1ULL << r.Below(cnt);
      if (r.Chance(1, 2)) mask |= r.Next() & ((1ULL << cnt) - 1);
    }
    const int nPart = __builtin_popcountll(mask);
    for (int w = 0; w < cnt; ++w) skew[w] = r.Chance(1, 2) ? 0 : r.Below(400);
    std::vector<std::thread> ths;
    if (fresh) {
      ++fresh_rounds;
      for (int w = 0; w < cnt; ++w) {
        if (!(mask & (1ULL << w))) continue;
        ths.emplace_back([&, w, round] {
          if (g_preempt_run.load(kRlx)) PreemptRegister();
          body(w, round);
          PreemptUnregister();
        });
      }
    } else {
      announce.store((round << 16) | mask, std::memory_order_release);
      SpinNs(3000);  // let the participants reach the barrier
    }
    gate.store(round, std::memory_order_release);
    const auto tw = NowNs();
    while (created.load(kMo) < nPart) {
      if (NowNs() - tw > g_cfg.hang_s * 1000000000ULL) {
        Violate("C04", "CreateEpochGuard-does-not-return:first-use-of-a-fresh-manager",
                Fmt("capacity=%zu: only %d of %d threads returned from their first CreateEpochGuard on a fresh manager within %" PRIu64 " s", kN, created.load(), nPart,
                    g_cfg.hang_s));
        res.counters["evaluations"] = pairs + done;
        EmitResult(res, "hang");
        fflush(stdout);
        _exit(0);
      }
      sched_yield();
    }
    uint64_t cur = em->GetCurrentEpoch();
    for (int f = 0; f < 3; ++f) {
      em->ForwardGlobalEpoch();
      ++cur;
      std::vector<size_t> list;
      {
        auto &&[g, l] = em->GetProtectedEpochs();
        list = l;
      }
      const auto m = em->GetMinEpoch();
      for (int w = 0; w < cnt; ++w) {
        if (!(mask & (1ULL << w))) continue;
        ++pairs;
        if (std::find(list.begin(), list.end(), epochs[w]) == list.end() || m > epochs[w]) {
          Violate("C04", "live-guard-epoch-not-protected:first-use-of-a-fresh-manager-by-simultaneous-threads",
                  Fmt("capacity=%zu: %d threads (%s) made their first CreateEpochGuard on a fresh manager at the same instant; worker %d's guard "
                      "(epoch %" PRIu64 ") is alive, yet the list published for epoch %" PRIu64 " is %s and GetMinEpoch()=%zu",
                      kN, nPart, fresh ? "fresh threads" : "threads that own their IDs already", w, epochs[w], cur, ListStr(list).c_str(), m));
          f = 3;
          break;
        }
      }
    }
    // then all guards but one are destroyed: all of them pin the same epoch, so only now does the list depend on the
    // survivor's slot alone
    if (g_log.n_viol.load() == 0 && nPart >= 1) {
      int k = static_cast<int>(r.Below(cnt));
      while (!(mask & (1ULL << k))) k = (k + 1) % cnt;
      for (int w = 0; w < cnt; ++w) {
        if (w != k) release_w[w].store(round, kMo);
      }
      while (finished.load(kMo) < nPart - 1) sched_yield();
      for (int f = 0; f < 3; ++f) {
        em->ForwardGlobalEpoch();
        ++cur;
        std::vector<size_t> list;
        {
          auto &&[g, l] = em->GetProtectedEpochs();
          list = l;
        }
        const auto m = em->GetMinEpoch();
        ++pairs;
        ++survivor_pairs;
        if (std::find(list.begin(), list.end(), epochs[k]) == list.end() || m > epochs[k]) {
          Violate("C04", "live-guard-epoch-not-protected:first-use-of-a-fresh-manager-by-simultaneous-threads",
                  Fmt("capacity=%zu: %d threads (%s) made their first CreateEpochGuard on a fresh manager at the same instant, then all guards but worker "
                      "%d's were destroyed; its guard (epoch %" PRIu64 ") is alive, yet the list published for epoch %" PRIu64 " is %s and GetMinEpoch()=%zu",
                      kN, nPart, fresh ? "fresh threads" : "threads that own their IDs already", k, epochs[k], cur, ListStr(list).c_str(), m));
          break;
        }
      }
    }
    release.store(round, kMo);
    while (finished.load(kMo) < nPart) sched_yield();
    for (auto &t : ths) t.join();
    em->~EpochManager();
    g_em = nullptr;
    ++done;
    if (g_log.n_viol.load() != 0) break;
  }
  quit.store(true);
  for (auto &t : pers) t.join();
  PreempterStop();
  res.Add("fresh_manager_rounds", done);
  res.Add("fresh_manager_rounds_with_fresh_threads", fresh_rounds);
  res.Add("guard_forward_pairs_checked", pairs);
  res.Add("sole_surviving_guard_forward_pairs_checked", survivor_pairs);
  res.counters["evaluations"] = pairs + done;
  res.signatures.push_back(Fmt("epochstart:N=%zu", kN));
  if (fresh_rounds) res.signatures.push_back(Fmt("epochstart:N=%zu:fresh-threads", kN));
  res.samples.push_back(Fmt("{\"mode\":\"epochstart\",\"capacity\":%zu,\"rounds\":%" PRIu64 ",\"workers\":%d}", kN, done, workers));
  EmitResult(res, "ok");
  return 0;
}

/*##############################################################################
 * mode=epochduo : two managers, each with its own coordinator, forwarding at the same time (C17, C04, C16, C20)
 *############################################################################*/
namespace duo
{
alignas(64) unsigned char g_storage[2][sizeof(EpochManager)];
EpochManager *g_m[2] = {nullptr, nullptr};
constexpr int kDuoWorkers = 6;
struct alignas(64) DReg {
  std::atomic<uint64_t> id{0};
  std::atomic<uint64_t> epoch{0};
};
DReg g_dreg[2][kDuoWorkers];
std::atomic<uint64_t> g_active[2], g_touch[2];
std::atomic<uint64_t> g_fwd[2], g_lists[2], g_pairs[2], g_exact[2], g_overlap_fwd{0};
std::atomic<int> g_in_fwd[2];
std::atomic<bool> g_dstop{false};
std::atomic<uint64_t> g_fifo_drops{0};

const char *
DuoClass(int m)
{
  if (tl_stale_publication) return "guard-epoch-was-already-stale-when-it-was-published";
  if (tl_long_lookup) return "lookup-stalled-while-list-nodes-were-retired";
  if (g_stale_m[m].load() != 0) return "after-another-thread-published-a-stale-epoch";
  return "no-stall-observed";
}

void
Coordinator(int m, int workers, uint64_t forwards)
{
  static thread_local ChaosMerger merger;
  (void)merger;
  ChaosThreadBegin(60 + m, g_cfg.seed);
  t_chaos.cur_op = 4;
  t_chaos.prob_div = 1;
  tl_duo_m = m;
  tl_em = g_m[m];
  auto &em = *g_m[m];
  (void)IDManager::GetThreadID();
  uint64_t prev = em.GetCurrentEpoch();
  if (prev != EpochManager::kInitialEpoch) Violate("C16", "initial-epoch-wrong", Fmt("manager %d: GetCurrentEpoch()=%" PRIu64 " initially", m, prev));
  uint64_t sid1[kDuoWorkers], sep1[kDuoWorkers], sid2[kDuoWorkers];
  const auto t0 = NowNs();
  for (uint64_t f = 0; f < forwards && !g_dstop.load(kRlx); ++f) {
    if ((f & 255) == 0 && NowNs() - t0 > 40ULL * 1000000000ULL) break;
    for (int w = 0; w < workers; ++w) {
      const auto a = g_dreg[m][w].id.load(kMo);
      sep1[w] = g_dreg[m][w].epoch.load(kMo);
      sid1[w] = (g_dreg[m][w].id.load(kMo) == a) ? a : 0;
    }
    const auto touch1 = g_touch[m].load(kMo);
    const bool quiet1 = g_active[m].load(kMo) == 0;
    g_in_fwd[m].store(1, kMo);
    if (g_in_fwd[1 - m].load(kMo) != 0) g_overlap_fwd.fetch_add(1, kRlx);
    em.ForwardGlobalEpoch();
    g_in_fwd[m].store(0, kMo);
    for (int w = 0; w < workers; ++w) sid2[w] = g_dreg[m][w].id.load(kMo);
    const auto cur = em.GetCurrentEpoch();
    g_fwd[m].fetch_add(1, kRlx);
    if (cur != prev + 1) {
      Violate("C16", "epoch-did-not-advance-by-exactly-one",
              Fmt("two managers: manager %d GetCurrentEpoch()=%zu after its ForwardGlobalEpoch, previous %" PRIu64, m, cur, prev));
    }
    prev = cur;
    std::vector<size_t> list;
    size_t ge = 0;
    tl_stale_publication = false;
    tl_long_lookup = false;
    tl_step_upper = 0;
    try {
      tl_in_gpe = true;
      auto &&[g, l] = em.GetProtectedEpochs();
      list = l;
      tl_in_gpe = false;
      ge = g.GetProtectedEpoch();
    } catch (const std::exception &ex) {
      tl_in_gpe = false;
      Violate("C17", Fmt("epoch:GetProtectedEpochs:%s", DuoClass(m)), Fmt("two managers: coordinator of manager %d: exception %s", m, ex.what()));
      continue;
    }
    const auto mn = em.GetMinEpoch();
    const bool quiet = quiet1 && g_active[m].load(kMo) == 0 && g_touch[m].load(kMo) == touch1;
    g_lists[m].fetch_add(1, kRlx);
    bool bad = ge != cur || list.size() < 2 || list.front() != cur || list[1] != cur - 1;
    for (size_t i = 1; i < list.size() && !bad; ++i) bad = list[i] >= list[i - 1];
    if (bad) {
      Violate("C17", Fmt("epoch:GetProtectedEpochs:%s", DuoClass(m)),
              Fmt("two managers forwarding at the same time: coordinator (sole forwarder and sole reader) of manager %d: guard epoch %zu, current epoch "
                  "%zu, list %s (expected first element = guard epoch, second = preceding epoch, strictly descending); history class: %s",
                  m, ge, cur, ListStr(list).c_str(), DuoClass(m)));
    } else if (quiet) {
      g_exact[m].fetch_add(1, kRlx);
      if (list.size() != 2 || mn != cur - 1) {
        Violate("C16", "destroyed-guards-still-pin-after-a-complete-forward:two-managers",
                Fmt("two managers: no guard of manager %d existed from before its ForwardGlobalEpoch until its list was read (all earlier guards were "
                    "destroyed), yet the list for epoch %zu is %s and GetMinEpoch()=%zu (expected [%zu,%zu] and %zu)",
                    m, cur, ListStr(list).c_str(), mn, cur, cur - 1, cur - 1));
      }
    }
    if (mn > cur) Violate("C16", "GetMinEpoch-exceeds-later-GetCurrentEpoch", Fmt("manager %d: GetMinEpoch()=%zu, current %zu", m, mn, cur));
    for (int w = 0; w < workers; ++w) {
      if (sid1[w] == 0 || sid1[w] != sid2[w]) continue;
      g_pairs[m].fetch_add(1, kRlx);
      const auto e = sep1[w];
      if (std::find(list.begin(), list.end(), e) == list.end() || mn > e) {
        Violate("C04", "live-guard-epoch-not-protected:two-managers-forwarding-at-the-same-time",
                Fmt("manager %d: guard #%" PRIu64 " (epoch %" PRIu64 ", worker %d) was registered before ForwardGlobalEpoch started and is still registered "
                    "after it returned, but the list published for epoch %zu is %s and GetMinEpoch()=%zu",
                    m, sid1[w], e, w, cur, ListStr(list).c_str(), mn));
      }
    }
    if (g_cfg.pace_ns != 0 && (f & 7) == 0) SpinNs(t_chaos.rng.Below(g_cfg.pace_ns + 1));
    g_ops_done.fetch_add(1, kRlx);
  }
  g_dstop.store(true);
  ChaosThreadEnd();
}

void
DuoWorker(int w, uint64_t seed)
{
  static thread_local ChaosMerger merger;
  (void)merger;
  ChaosThreadBegin(w, seed);
  t_chaos.cur_op = 3;
  Rng r;
  r.Seed(seed * 977 + static_cast<uint64_t>(w));
  uint64_t last_cur[2] = {0, 0};
  std::atomic<uint64_t> *uid = &g_guard_uid;
  auto take = [&](int m) {
    g_active[m].fetch_add(1, kMo);
    g_touch[m].fetch_add(1, kMo);
    tl_duo_m = m;
    tl_em = g_m[m];
    EpochGuard g = g_m[m]->CreateEpochGuard();
    g_dreg[m][w].epoch.store(g.GetProtectedEpoch(), kMo);
    g_dreg[m][w].id.store(uid->fetch_add(1) + 1, kMo);
    g_guards.fetch_add(1, kRlx);
    return g;
  };
  auto drop = [&](int m, EpochGuard &g) {
    g_dreg[m][w].id.store(0, kMo);
    {
      EpochGuard dead{std::move(g)};
    }
    g_touch[m].fetch_add(1, kMo);
    g_active[m].fetch_sub(1, kMo);
  };
  while (!g_dstop.load(kRlx)) {
    const int m = static_cast<int>(r.Below(2));
    for (int k = 0; k < 2; ++k) {
      const auto mn = g_m[k]->GetMinEpoch();
      const auto c = g_m[k]->GetCurrentEpoch();
      g_mono_checks.fetch_add(1, kRlx);
      if (mn > c) Violate("C16", "GetMinEpoch-exceeds-later-GetCurrentEpoch", Fmt("two managers: manager %d GetMinEpoch()=%zu then GetCurrentEpoch()=%zu", k, mn, c));
      if (c < last_cur[k]) Violate("C16", "GetCurrentEpoch-decreased", Fmt("two managers: manager %d: %" PRIu64 " then %zu", k, last_cur[k], c));
      last_cur[k] = c;
    }
    auto g = take(m);
    bool dropped = false;
    if (r.Chance(1, 3)) {
      auto g2 = take(1 - m);  // one guard of each manager at the same time
      SpinNs(r.Below(30000));
      if (r.Chance(1, 2)) {
        drop(1 - m, g2);  // last in, first out
      } else {
        drop(m, g);  // destroyed in creation order: the other manager's guard lives on
        dropped = true;
        g_fifo_drops.fetch_add(1, kRlx);
        SpinNs(r.Below(60000));
        drop(1 - m, g2);
      }
    }
    if (!dropped) {
      if (r.Chance(1, 8)) {
        SleepNs(r.Range(100000, 1500000));
      } else {
        SpinNs(r.Below(60000));
      }
      drop(m, g);
    }
    // leave windows without any guard
    if (r.Chance(1, 3)) SleepNs(r.Range(50000, 800000));
  }
  ChaosThreadEnd();
}

int
Run()
{
  g_point_cb = &PointCb;
  g_point_post_cb = &PointPostCb;
  struct sigaction sa {};
  sa.sa_sigaction = &SegvHandler;
  sa.sa_flags = SA_SIGINFO;
  sigaction(SIGSEGV, &sa, nullptr);
  sigaction(SIGBUS, &sa, nullptr);
  Rng r;
  r.Seed(g_cfg.seed * 1237 + kN);
  {
    using namespace ::dbgroup::verif;
    std::vector<int> cand = {kEpochForwardBegin, kEpochForwardCollected, kEpochForwardRetired, kEpochForwardEnd, kEpochScanSlot, kEpochGuardCreated};
    MakePlan(r, cand, 1);
    for (int p : cand) g_plan.prob[p] = std::min<uint32_t>(g_plan.prob[p], 1500);
    g_plan.prob[kEpochEnterGap] = 0;
    g_plan.prob[kEpochLookupStep] = 0;
    g_plan.th_yield = 100;
    g_plan.th_spin = 230;
    g_plan.th_sleep = 256;
    g_plan.sleep_max_ns = 200000;
  }
  Result res;
  if (kN < 2) {
    res.counters["evaluations"] = 0;
    EmitResult(res, "ok");
    return 0;
  }
  for (int m = 0; m < 2; ++m) g_m[m] = new (g_storage[m]) EpochManager{};
  const int workers = static_cast<int>(std::min<size_t>(kN - 2, kDuoWorkers));
  const uint64_t forwards = 40000 * g_cfg.scale;
  std::vector<std::thread> ths;
  for (int w = 0; w < workers; ++w) ths.emplace_back(DuoWorker, w, g_cfg.seed * 100 + w);
  std::thread c0{Coordinator, 0, workers, forwards}, c1{Coordinator, 1, workers, forwards};
  {
    // structural watchdog: a coordinator that stays inside one call for hang_s seconds
    uint64_t last[2] = {~0ULL, ~0ULL}, since[2] = {NowNs(), NowNs()};
    while (!g_dstop.load(kRlx)) {
      SleepNs(20000000);
      for (int m = 0; m < 2; ++m) {
        const auto v = g_fwd[m].load(kRlx);
        if (v != last[m]) {
          last[m] = v;
          since[m] = NowNs();
        } else if (NowNs() - since[m] > g_cfg.hang_s * 1000000000ULL && !g_dstop.load(kRlx)) {
          Violate("C16", "ForwardGlobalEpoch-or-GetProtectedEpochs-does-not-return:two-managers-forwarding-at-the-same-time",
                  Fmt("capacity=%zu: the coordinator of manager %d completed no forward for %" PRIu64 " s (%s ForwardGlobalEpoch)", kN, m, g_cfg.hang_s,
                      g_in_fwd[m].load() ? "inside" : "outside"));
          res.Add("hangs", 1);
          res.counters["evaluations"] = g_fwd[0].load() + g_fwd[1].load();
          EmitResult(res, "hang");
          fflush(stdout);
          _exit(0);
        }
      }
    }
  }
  c0.join();
  c1.join();
  for (auto &t : ths) t.join();
  PreempterStop();
  res.Add("forwards", g_fwd[0].load() + g_fwd[1].load());
  res.Add("forwards_started_while_the_other_manager_was_forwarding", g_overlap_fwd.load());
  res.Add("lists_checked", g_lists[0].load() + g_lists[1].load());
  res.Add("quiescent_checks", g_exact[0].load() + g_exact[1].load());
  res.Add("guard_forward_pairs_checked", g_pairs[0].load() + g_pairs[1].load());
  res.Add("guards_created", g_guards.load());
  res.Add("guards_of_two_managers_destroyed_in_creation_order", g_fifo_drops.load());
  res.Add("monotonic_read_checks", g_mono_checks.load());
  res.Add("stale_epoch_publications", g_stale_publications.load());
  res.counters["evaluations"] = g_fwd[0].load() + g_fwd[1].load() + g_guards.load();
  res.signatures.push_back(Fmt("epochduo:N=%zu:workers=%d", kN, workers));
  if (g_overlap_fwd.load()) res.signatures.push_back(Fmt("epochduo:N=%zu:overlapping-forwards", kN));
  if (g_exact[0].load() + g_exact[1].load()) res.signatures.push_back(Fmt("epochduo:N=%zu:quiet-window-exact-list", kN));
  res.samples.push_back(Fmt("{\"mode\":\"epochduo\",\"capacity\":%zu,\"workers\":%d,\"forwards\":[%" PRIu64 ",%" PRIu64 "],\"overlapping\":%" PRIu64 "}", kN, workers,
                            g_fwd[0].load(), g_fwd[1].load(), g_overlap_fwd.load()));
  for (int m = 0; m < 2; ++m) g_m[m]->~EpochManager();
  EmitResult(res, "ok");
  return 0;
}
}  // namespace duo
}  // namespace ep

/*##############################################################################
 * mode=model : C20 (sequential reference model, lock-step workers)
 *############################################################################*/
namespace md
{
alignas(64) unsigned char g_em_storage[2][sizeof(EpochManager)];

struct Cmd {
  std::atomic<int> op{0};  // 0 idle, 1 create guard on manager 0 (assign onto whatever the variable holds), 2 destroy,
                           // 3 exit, 4 create guard on manager 1 (assign), 5 move-construct round trip
  std::atomic<int> ack{0};
  std::atomic<uint64_t> epoch{0};
};

struct WorkerCtl {
  Cmd cmd;
  std::thread th;
  int mgr{-1};  // manager whose guard the worker's variable holds (-1 none)
  uint64_t pinned{0};
  int mgr2{-1};  // manager whose guard the worker's second variable holds (-1 none; never the same manager as mgr)
  uint64_t pinned2{0};
};

void
WorkerLoop(EpochManager *em0, EpochManager *em1, Cmd *c, int64_t probe_start)
{
  tl_probe_start = probe_start;
  EpochGuard guard{};
  EpochGuard guard_b{};  // second variable: a guard of the other manager held at the same time
  while (true) {
    int op = 0;
    while ((op = c->op.load(std::memory_order_acquire)) == 0) sched_yield();
    if (op == 8) {
      guard_b = em0->CreateEpochGuard();
      c->epoch.store(guard_b.GetProtectedEpoch());
    } else if (op == 9) {
      guard_b = em1->CreateEpochGuard();
      c->epoch.store(guard_b.GetProtectedEpoch());
    } else if (op == 10) {
      guard_b = EpochGuard{};
    } else if (op == 11 || op == 12) {
      // this worker acts as the coordinator for one call (whatever guards it holds itself)
      tl_cur_mgr = op == 11 ? 0 : 1;
      (op == 11 ? em0 : em1)->ForwardGlobalEpoch();
      tl_cur_mgr = -1;
    } else if (op == 7) {
      c->epoch.store(IDManager::GetThreadID());
    } else if (op == 1) {
      guard = em0->CreateEpochGuard();
      c->epoch.store(guard.GetProtectedEpoch());
    } else if (op == 4) {
      guard = em1->CreateEpochGuard();
      c->epoch.store(guard.GetProtectedEpoch());
    } else if (op == 2) {
      guard = EpochGuard{};
    } else if (op == 5) {
      EpochGuard tmp{std::move(guard)};
      guard = std::move(tmp);
      c->epoch.store(guard.GetProtectedEpoch());
    } else if (op == 6) {
      EpochGuard &alias = guard;
      guard = std::move(alias);  // self move assignment: ends the pin and leaves the guard empty
    }
    c->op.store(0, std::memory_order_relaxed);
    c->ack.fetch_add(1, std::memory_order_release);
    if (op == 3) return;
  }
}

std::atomic<uint64_t> g_long_epoch{0};
std::atomic<int> g_long_phase{0};  // 1 inside ForwardGlobalEpoch, 2 inside GetProtectedEpochs
const char *g_crash_prop = "C16";
void LongCrashHandler(int sig, siginfo_t *, void *);

inline void
InstallSeqCrashHandler(const char *prop)
{
#if !VERIF_ASAN
  g_crash_prop = prop;
  struct sigaction sa {};
  sa.sa_sigaction = &LongCrashHandler;
  sa.sa_flags = SA_SIGINFO;
  sigaction(SIGSEGV, &sa, nullptr);
  sigaction(SIGBUS, &sa, nullptr);
  sigaction(SIGABRT, &sa, nullptr);
#else
  (void)prop;
#endif
}

void
Do(WorkerCtl &w, int op)
{
  const auto a = w.cmd.ack.load();
  w.cmd.op.store(op, std::memory_order_release);
  while (w.cmd.ack.load(std::memory_order_acquire) == a) sched_yield();
}

int
Run()
{
  Rng r;
  r.Seed(g_cfg.seed * 4241 + kN);
  Result res;
  InstallSeqCrashHandler("C20");
  const uint64_t histories = 6 * g_cfg.scale;
  uint64_t total_forwards = 0, total_checks = 0, max_nodes = 0, boundaries = 0, managers = 0, overwrites = 0, respawns = 0, id_reuses = 0;
  uint64_t second_guards = 0, second_first = 0, first_first = 0, forwards_by_workers = 0, forwards_by_guard_holders = 0;
  std::set<std::string> sigs;
  for (uint64_t h = 0; h < histories; ++h) {
    const auto base_nodes = g_aligned_live.load();
    EpochManager *em[2] = {nullptr, nullptr};
    for (int m = 0; m < 2; ++m) {
      tl_cur_mgr = m;
      em[m] = new (g_em_storage[m]) EpochManager{};
      tl_cur_mgr = -1;
    }
    managers += 2;
    const size_t nw = kN <= 1 ? 0 : 1 + r.Below(std::min<size_t>(kN - 1, 12));
    std::vector<std::unique_ptr<WorkerCtl>> ws;
    for (size_t i = 0; i < nw; ++i) {
      ws.emplace_back(new WorkerCtl{});
      ws.back()->th = std::thread(WorkerLoop, em[0], em[1], &ws.back()->cmd, static_cast<int64_t>(-1));
    }
    uint64_t cur[2] = {EpochManager::kInitialEpoch, EpochManager::kInitialEpoch};
    for (int m = 0; m < 2; ++m) {
      if (em[m]->GetCurrentEpoch() != cur[m]) Violate("C16", "initial-epoch-wrong", Fmt("%zu", em[m]->GetCurrentEpoch()));
    }
    const uint64_t steps = r.Chance(1, 3) ? r.Range(300, 1500) : r.Range(1500, 12000);
    const uint32_t p_forward = static_cast<uint32_t>(r.Range(40, 98));
    const bool long_pins = r.Chance(1, 2);
    const bool two_managers = r.Chance(1, 2);
    bool stop = false;
    for (uint64_t s = 0; s < steps && !stop; ++s) {
      if (r.Below(100) < p_forward || nw == 0) {
        const int m = (two_managers && r.Chance(1, 4)) ? 1 : 0;
        g_long_phase.store(1, kRlx);
        if (nw > 0 && r.Chance(1, 4)) {
          // one of the workers is the coordinator this time - possibly one that holds a guard of this manager
          auto *fw = ws[r.Below(nw)].get();
          for (auto &w : ws) {
            if (w->mgr == m || w->mgr2 == m) {
              if (r.Chance(1, 2)) fw = w.get();
              break;
            }
          }
          Do(*fw, m == 0 ? 11 : 12);
          ++forwards_by_workers;
          if (fw->mgr == m || fw->mgr2 == m) {
            ++forwards_by_guard_holders;
            sigs.insert(Fmt("model:N=%zu:forward-called-by-a-thread-that-holds-a-guard", kN));
          }
        } else {
          tl_cur_mgr = m;
          em[m]->ForwardGlobalEpoch();
          tl_cur_mgr = -1;
        }
        g_long_phase.store(0, kRlx);
        ++cur[m];
        g_long_epoch.store(cur[m], kRlx);
        ++total_forwards;
        if ((cur[m] & 255) == 0) ++boundaries;
        // expected list
        std::vector<size_t> exp = {cur[m], cur[m] - 1};
        for (auto &w : ws) {
          if (w->mgr == m) exp.push_back(w->pinned);
          if (w->mgr2 == m) exp.push_back(w->pinned2);
        }
        std::sort(exp.begin(), exp.end(), std::greater<size_t>{});
        exp.erase(std::unique(exp.begin(), exp.end()), exp.end());
        if (em[m]->GetCurrentEpoch() != cur[m]) {
          Violate("C16", "epoch-did-not-advance-by-exactly-one", Fmt("model mode: expected %" PRIu64 " got %zu", cur[m], em[m]->GetCurrentEpoch()));
        }
        // read the list through the API (the controller uses the one ID the workers leave free)
        std::vector<size_t> got;
        {
          auto &&[g, l] = em[m]->GetProtectedEpochs();
          got = l;
          if (g.GetProtectedEpoch() != cur[m]) Violate("C20", "controller-guard-epoch-wrong", Fmt("%zu vs %" PRIu64, g.GetProtectedEpoch(), cur[m]));
        }
        const auto mn = em[m]->GetMinEpoch();
        ++total_checks;
        if (got != exp || mn != exp.back()) {
          std::string es = "[", gs = "[";
          for (auto v : exp) es += Fmt("%zu,", v);
          for (auto v : got) gs += Fmt("%zu,", v);
          Violate("C20", "published-list-differs-from-reference-model",
                  Fmt("capacity=%zu history %" PRIu64 " step %" PRIu64 " manager %d: after ForwardGlobalEpoch to %" PRIu64 " the list is %s] and "
                      "GetMinEpoch()=%zu; reference model (sorted distinct {new, previous, pinned}) gives %s] and %zu",
                      kN, h, s, m, cur[m], gs.c_str(), mn, es.c_str(), exp.back()));
          // an epoch in the list that no live guard pins: a destroyed / overwritten guard still pins (C16)
          for (auto v : got) {
            if (v < cur[m] - 1 && std::find(exp.begin(), exp.end(), v) == exp.end()) {
              Violate("C16", "destroyed-or-overwritten-guard-still-pins-its-epoch",
                      Fmt("capacity=%zu manager %d: epoch %zu is in the list published for %" PRIu64 " (%s]) although no live guard pins it", kN, m, v,
                          cur[m], gs.c_str()));
              break;
            }
          }
          stop = true;
        }
        // memory bound (for the manager that was just forwarded; the other one retires nodes at its own next
        // forward): nodes <= distinct 256-ranges of its list + 2 (the never-retired first node and one spare)
        std::set<size_t> ranges;
        for (auto v : exp) ranges.insert(v >> 8);
        const auto nodes = static_cast<uint64_t>(g_mgr_nodes[m].load());
        max_nodes = std::max(max_nodes, nodes);
        if (nodes > ranges.size() + 2) {
          Violate("C20", "more-list-nodes-alive-than-protected-ranges-plus-constant",
                  Fmt("capacity=%zu history %" PRIu64 " manager %d epoch %" PRIu64 ": %" PRIu64 " list nodes of this manager are allocated right after "
                      "its ForwardGlobalEpoch, but its list covers only %zu distinct 256-epoch ranges",
                      kN, h, m, cur[m], nodes, ranges.size()));
          stop = true;
        }
        sigs.insert(Fmt("model:N=%zu:pins=%zu:ranges=%zu", kN, std::min<size_t>(exp.size() - 2, 4), std::min<size_t>(ranges.size(), 6)));
      } else {
        auto &w = *ws[r.Below(nw)];
        const auto k = r.Below(10);
        if (two_managers && w.mgr2 < 0 && r.Chance(1, 8)) {
          // a second guard variable: a guard of the manager the first variable does not use, held at the same time
          const int m = w.mgr >= 0 ? 1 - w.mgr : static_cast<int>(r.Below(2));
          Do(w, m == 0 ? 8 : 9);
          w.mgr2 = m;
          w.pinned2 = w.cmd.epoch.load();
          ++second_guards;
          if (w.mgr >= 0) sigs.insert(Fmt("model:N=%zu:guards-of-both-managers-held-by-one-thread", kN));
          if (w.pinned2 != cur[m]) {
            Violate("C20", "guard-created-in-quiescence-does-not-report-current-epoch", Fmt("guard epoch %" PRIu64 ", current %" PRIu64, w.pinned2, cur[m]));
            stop = true;
          }
        } else if (w.mgr2 >= 0 && r.Chance(1, 5)) {
          // destroyed independently of the first variable: both destruction orders occur
          Do(w, 10);
          if (w.mgr >= 0) ++second_first;
          w.mgr2 = -1;
        } else if (w.mgr < 0 && w.mgr2 < 0 && r.Chance(1, 12)) {
          // thread churn inside the manager's lifetime: the worker thread exits and a new thread takes its place,
          // steered onto the ID that was just released
          Do(w, 7);
          const auto old_id = w.cmd.epoch.load();
          Do(w, 3);
          w.th.join();
          w.cmd.op.store(0);
          w.th = std::thread(WorkerLoop, em[0], em[1], &w.cmd, static_cast<int64_t>((old_id + kN - 1) % kN));
          Do(w, 7);
          if (w.cmd.epoch.load() == old_id) ++id_reuses;
          ++respawns;
          sigs.insert(Fmt("model:N=%zu:worker-thread-replaced", kN));
        } else if (w.mgr < 0) {
          const int m = w.mgr2 >= 0 ? 1 - w.mgr2 : ((two_managers && r.Chance(1, 3)) ? 1 : 0);
          Do(w, m == 0 ? 1 : 4);
          w.mgr = m;
          w.pinned = w.cmd.epoch.load();
          if (w.pinned != cur[m]) {
            Violate("C20", "guard-created-in-quiescence-does-not-report-current-epoch", Fmt("guard epoch %" PRIu64 ", current %" PRIu64, w.pinned, cur[m]));
            stop = true;
          }
        } else if (two_managers && k < 2 && w.mgr2 < 0) {
          // assign a guard of the other manager over the live guard: the old pin ends, the new one begins
          const int m = 1 - w.mgr;
          Do(w, m == 0 ? 1 : 4);
          w.mgr = m;
          w.pinned = w.cmd.epoch.load();
          ++overwrites;
          sigs.insert(Fmt("model:N=%zu:guard-of-other-manager-assigned-over-live-guard", kN));
          if (w.pinned != cur[m]) {
            Violate("C20", "guard-created-in-quiescence-does-not-report-current-epoch", Fmt("guard epoch %" PRIu64 ", current %" PRIu64, w.pinned, cur[m]));
            stop = true;
          }
        } else if (k < 4) {
          Do(w, 5);
          if (w.cmd.epoch.load() != w.pinned) {
            Violate("C04", "guard-epoch-changed-by-move", Fmt("guard reported %" PRIu64 " before and %" PRIu64 " after a move round trip", w.pinned, w.cmd.epoch.load()));
            stop = true;
          }
        } else if (!long_pins || r.Chance(1, 6)) {
          Do(w, r.Chance(1, 5) ? 6 : 2);
          if (w.mgr2 >= 0) ++first_first;
          w.mgr = -1;
        }
      }
    }
    for (auto &w : ws) {
      if (w->mgr >= 0) Do(*w, 2);  // guards must not outlive their manager (LeaveEpoch touches it)
      if (w->mgr2 >= 0) Do(*w, 10);
      w->mgr = -1;
      w->mgr2 = -1;
    }
    if (!stop && r.Chance(1, 2)) {
      // C16: all guards are gone; one complete forward must leave exactly {cur, cur-1}
      for (int m = 0; m < 2; ++m) {
        tl_cur_mgr = m;
        em[m]->ForwardGlobalEpoch();
        tl_cur_mgr = -1;
        ++cur[m];
        auto &&[g, l] = em[m]->GetProtectedEpochs();
        if (l != std::vector<size_t>{cur[m], cur[m] - 1} || em[m]->GetMinEpoch() != cur[m] - 1) {
          Violate("C16", "destroyed-guards-still-pin-after-a-complete-forward",
                  Fmt("capacity=%zu manager %d history %" PRIu64 ": all guards destroyed, list has %zu entries, GetMinEpoch()=%zu, current %" PRIu64, kN, m, h,
                      l.size(), em[m]->GetMinEpoch(), cur[m]));
        }
      }
    }
    for (auto &w : ws) {
      Do(*w, 3);
      w->th.join();
    }
    for (int m = 0; m < 2; ++m) {
      tl_cur_mgr = m;
      em[m]->~EpochManager();
      tl_cur_mgr = -1;
    }
    const auto left = g_aligned_live.load() - base_nodes;
    if (left != 0) {
      Violate("C20", "list-nodes-not-freed-by-destructor",
              Fmt("capacity=%zu history %" PRIu64 ": %" PRId64 " list nodes are still allocated after ~EpochManager (final epochs %" PRIu64 "/%" PRIu64 ")", kN,
                  h, static_cast<int64_t>(left), cur[0], cur[1]));
    }
    sigs.insert(Fmt("model:N=%zu:destroyed-at-%s", kN, (cur[0] & 255) < 3 ? "node-boundary" : "mid-node"));
  }
  res.Add("histories", histories);
  res.Add("managers_destroyed", managers);
  res.Add("forwards", total_forwards);
  res.Add("lists_compared_with_model", total_checks);
  res.Add("node_boundaries_crossed", boundaries);
  res.Add("guards_assigned_over_live_guard_of_other_manager", overwrites);
  res.Add("second_guards_of_the_other_manager_in_one_thread", second_guards);
  res.Add("forwards_called_by_worker_threads", forwards_by_workers);
  res.Add("forwards_called_by_a_thread_that_holds_a_guard", forwards_by_guard_holders);
  res.Add("two_guards_destroyed_last_in_first_out", second_first);
  res.Add("two_guards_destroyed_in_creation_or_other_order", first_first);
  res.Add("worker_threads_replaced", respawns);
  res.Add("worker_threads_replaced_on_same_id", id_reuses);
  res.counters["max_live_list_nodes"] = max_nodes;
  res.counters["evaluations"] = total_checks;
  for (auto &s : sigs) res.signatures.push_back(s);
  res.samples.push_back(Fmt("{\"capacity\":%zu,\"histories\":%" PRIu64 ",\"forwards\":%" PRIu64 ",\"seed\":%" PRIu64 "}", kN, histories, total_forwards, g_cfg.seed));
  EmitResult(res, "ok");
  return 0;
}

/*------------------------------------------------------------------------------
 * mode=long : C16 over very many forwards (powers of two up to 2^target)
 *----------------------------------------------------------------------------*/
// (g_long_epoch / g_long_phase are declared above md::Run)

void
LongCrashHandler(int sig, siginfo_t *, void *)
{
  static std::atomic<int> once{0};
  if (once.exchange(1) != 0) {
    for (;;) pause();  // another thread is already writing the report and will end the process
  }
  char buf[1024];
  const int n = snprintf(buf, sizeof buf,
                         "RESULT {\"status\":\"crash\",\"counters\":{\"evaluations\":%" PRIu64 ",\"forwards\":%" PRIu64 "},\"strings\":{},\"chaos\":{},"
                         "\"samples\":[],\"signatures\":[],\"violations\":[{\"prop\":\"%s\",\"key\":\"invalid-memory-access-in-%s-in-a-sequential-history\","
                         "\"detail\":\"signal %d inside %s on a manager without any guard; last completed epoch %" PRIu64 " (0x%" PRIx64 ")\",\"count\":1}],"
                         "\"observations\":{}}\n",
                         g_long_epoch.load(), g_long_epoch.load(), g_crash_prop, g_long_phase.load() == 1 ? "ForwardGlobalEpoch" : "GetProtectedEpochs", sig,
                         g_long_phase.load() == 1 ? "ForwardGlobalEpoch" : (g_long_phase.load() == 2 ? "GetProtectedEpochs" : "the monitor"),
                         g_long_epoch.load(), g_long_epoch.load());
  if (n > 0) {
    const auto w = write(1, buf, static_cast<size_t>(n));
    (void)w;
  }
  _exit(0);
}

int
RunLong()
{
  Result res;
  InstallSeqCrashHandler("C16");
  const uint64_t target = (1ULL << g_cfg.scale) + 4096;  // scale = log2 of the epoch to cross
  auto *em = new (g_em_storage[0]) EpochManager{};
  const auto base_nodes = g_aligned_live.load();
  uint64_t cur = EpochManager::kInitialEpoch;
  uint64_t full_checks = 0, pow2_crossed = 0;
  uint64_t next_pow = 1ULL << 9;
  bool stop = false;
  std::set<std::string> sigs;
  while (cur < target && !stop) {
    g_long_phase.store(1, kRlx);
    em->ForwardGlobalEpoch();
    g_long_phase.store(0, kRlx);
    ++cur;
    g_long_epoch.store(cur, kRlx);
    const auto c = em->GetCurrentEpoch();
    if (c != cur) {
      Violate("C16", "epoch-did-not-advance-by-exactly-one", Fmt("after %" PRIu64 " forwards GetCurrentEpoch()=%zu, expected %" PRIu64, cur - EpochManager::kInitialEpoch, c, cur));
      break;
    }
    while (next_pow + 300 < cur) {
      next_pow <<= 1;
    }
    const bool near_pow = (cur + 300 >= next_pow && cur <= next_pow + 300);
    if (cur == next_pow) {
      ++pow2_crossed;
      sigs.insert(Fmt("long:crossed-2^%d", 63 - __builtin_clzll(cur)));
    }
    if (near_pow || (cur & 0xFFF) == 0) {
      g_long_phase.store(2, kRlx);
      auto &&[g, l] = em->GetProtectedEpochs();
      g_long_phase.store(0, kRlx);
      ++full_checks;
      if (g.GetProtectedEpoch() != cur || l != std::vector<size_t>{cur, cur - 1} || em->GetMinEpoch() != cur - 1) {
        Violate("C16", "list-or-min-epoch-wrong-after-many-forwards",
                Fmt("at epoch %" PRIu64 " (no guard alive): guard epoch %zu, list size %zu front %zu, GetMinEpoch()=%zu", cur, g.GetProtectedEpoch(), l.size(),
                    l.empty() ? 0 : l.front(), em->GetMinEpoch()));
        stop = true;
      }
      const auto nodes = g_aligned_live.load() - base_nodes;
      if (nodes > 3) {
        Violate("C20", "more-list-nodes-alive-than-protected-ranges-plus-constant", Fmt("%" PRId64 " extra nodes alive at epoch %" PRIu64 " with no guard", static_cast<int64_t>(nodes), cur));
        stop = true;
      }
    }
  }
  res.Add("forwards", cur - EpochManager::kInitialEpoch);
  res.Add("quiescent_checks", full_checks);
  res.Add("powers_of_two_crossed", pow2_crossed);
  res.counters["evaluations"] = cur - EpochManager::kInitialEpoch;
  res.counters["max_final_epoch"] = cur;
  for (auto &s : sigs) res.signatures.push_back(s);
  res.samples.push_back(Fmt("{\"mode\":\"long\",\"capacity\":%zu,\"final_epoch\":%" PRIu64 "}", kN, cur));
  em->~EpochManager();
  EmitResult(res, "ok");
  return 0;
}
}  // namespace md

}  // namespace vf

#if VERIF_ASAN
extern "C" {
void *__asan_get_report_address(void);
void
__asan_on_error(void)
{
  const auto a = reinterpret_cast<uint64_t>(__asan_get_report_address());
  if (vf::ep::g_em != nullptr && (vf::InNodeRange(a) || vf::ep::tl_in_gpe)) {
    vf::ep::CrashReport("AddressSanitizer report on protected-epoch list memory", 0);
  }
}
}
#endif

int
main(int argc, char **argv)
{
  using namespace vf;
  Args a{argc, argv};
  g_cfg.mode = a.S("mode", "id");
  g_cfg.seed = a.U("seed", 1);
  g_cfg.scale = a.U("scale", 1);
  g_cfg.sub = a.S("sub", "A");
  g_cfg.hang_s = a.U("hang_s", 20);
  g_cfg.pace_ns = a.U("pace", 2000);
  g_cfg.fwdchaos = a.U("fwdchaos", 0);
  g_cfg.preempt = a.U("preempt", 0);
  g_cfg.step = a.U("step", 0);
  g_cfg.heavy = a.U("heavy", 2);
  if (g_cfg.preempt != 0) PreempterStart(g_cfg.seed, 30, 400, 20, 400);
  if (g_cfg.mode == "id") return idm::Run();
  if (g_cfg.mode == "storm") return idm::RunStorm();
  if (g_cfg.mode == "churnstorm") return idm::RunChurnStorm();
  if (g_cfg.mode == "handoff") return idm::RunHandoff();
  if (g_cfg.mode == "bigcap") return idm::RunBigCap();
  if (g_cfg.mode == "epoch") return ep::Run();
  if (g_cfg.mode == "epochstart") return ep::RunStart();
  if (g_cfg.mode == "epochduo") return ep::duo::Run();
  if (g_cfg.mode == "model") return md::Run();
  if (g_cfg.mode == "long") return md::RunLong();
  fprintf(stderr, "unknown mode\n");
  return 2;
}
