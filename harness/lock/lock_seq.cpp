// E1: op-level controlled engine.  A controller issues one operation at a time
// to 2-4 "virtual threads" (real threads waiting on mailboxes), following random
// programs over the complete guard API of one lock class, and compares every
// completed operation with an executable model (ownership of every guard slot,
// lock-mode holders, version values).  Operations that do not complete within a
// grace period are left pending and validated when they complete.
//
// usage: lock_seq cls=pess|opt|mcs seed=S programs=P steps=L chaos=0..2 hang_s=SEC
#define VERIF_MAIN_TU
#include <pthread.h>
#include <signal.h>

#include <algorithm>
#include <memory>
#include <set>
#include <thread>

#include "nodeacct.hpp"

namespace vf
{
thread_local MonTls t_mon{};

constexpr int kVT = 4;     // max virtual threads
constexpr int kSlots = 2;  // slots per guard kind
constexpr int kLocksE1 = 2;

enum OpK : int {
  kLock = 0,     // a=mode, k=lock, b=dst slot
  kReset,        // a=kind, b=slot             slot = G{}
  kDtor,         // a=kind, b=slot             destroy + default construct
  kMoveCtor,     // a=kind, b=src, c=dst       {G t{move(src)}; dst = move(t);}
  kMoveAssign,   // a=kind, b=src, c=dst       dst = move(src)
  kUpgrade,      // b=src six, c=dst x
  kDowngrade,    // b=src x, c=dst six
  kGetVer,       // k=lock, c=dst og
  kVerify,       // b=og slot
  kTryLock,      // a=mode, b=og slot, c=dst
  kPrepare,      // k=lock, c=dst cg
  kCgVerify,     // b=cg slot
  kSetVer,       // b=x slot, v
  kOgCopy,       // b=src, c=dst
  kExit,
  kOpKCount
};
const char *kOpKNames[] = {"Lock", "Reset", "Dtor", "MoveCtor", "MoveAssign", "Upgrade", "Downgrade", "GetVersion",
                           "VerifyVersion", "TryLock", "PrepareRead", "Composite::VerifyVersion", "SetVersion", "OptGuardCopy", "Exit"};
enum Kind : int { kKS = 0, kKSIX = 1, kKX = 2, kKCG = 3, kKOG = 4 };
const char *kKindNames[] = {"SGuard", "SIXGuard", "XGuard", "CompositeGuard", "OptGuard"};

struct Cmd {
  int op{0}, a{0}, b{0}, c{0}, k{0};
  uint32_t v{0};
};
struct Res {
  uint64_t done_tick{0};
  uint32_t bools{0};       // bit (kind*2+slot) for kinds S,SIX,X,CG
  uint32_t aux_bools{0};   // op specific (e.g. moved-from/temporary ownership inside MoveCtor)
  bool ok{false};
  uint32_t ver[2]{0, 0};   // op specific version outputs
  uint32_t xver[kSlots]{};   // XGuard::GetVersion of every x slot
  uint32_t ogver[kSlots]{};  // OptGuard::GetVersion
  uint32_t cgver[kSlots]{};
};

struct alignas(64) Mailbox {
  std::atomic<int> state{0};  // 0 idle, 1 posted, 2 done (result ready)
  Cmd cmd;
  Res res;
  std::atomic<uint64_t> arrived{0};  // MCS arrival tick of the current Lock op
  std::atomic<uint64_t> in_lib{0};
};

struct SeqCfg {
  std::string cls;
  uint64_t seed{1};
  uint64_t programs{200};
  int steps{14};
  int chaos{1};
  uint64_t hang_s{15};
  uint64_t grace_us{1500};
};
SeqCfg g_scfg;

Mailbox *g_boxes_by_tid[kVT];
thread_local int tl_cur_op = -1;
thread_local int tl_cur_kind = -1;

void
SeqCrashHandler(int sig, siginfo_t *si, void *)
{
  static std::atomic<int> once{0};
  if (once.exchange(1) != 0) {
    for (;;) pause();  // another thread is already writing the report and will end the process
  }
  const bool mcs = strcmp(g_cls_name, "mcs") == 0;
  const bool guard_op = tl_cur_op == kReset || tl_cur_op == kDtor || tl_cur_op == kMoveCtor || tl_cur_op == kMoveAssign;
  const bool composite = (guard_op && tl_cur_kind == kKCG) || tl_cur_op == kPrepare || tl_cur_op == kCgVerify;
  const char *prop = tl_cur_op < 0 ? "HARNESS" : (composite ? "C13" : ((guard_op || !mcs) ? "C07" : "C12"));
  char buf[1024];
  const int n = snprintf(buf, sizeof buf,
                         "RESULT {\"status\":\"crash\",\"counters\":{\"crashes\":1,\"evaluations\":%" PRIu64 "},\"strings\":{},\"chaos\":{},"
                         "\"samples\":[],\"signatures\":[],\"violations\":[{\"prop\":\"%s\",\"key\":\"%s:invalid-memory-access-inside-%s%s%s\","
                         "\"detail\":\"class=%s lock_seq: signal %d at address %p while virtual thread %d was executing %s on %s\",\"count\":1}],"
                         "\"observations\":{}}\n",
                         g_ops_done.load(kRlx) + 1, prop, g_cls_name, tl_cur_op >= 0 ? kOpKNames[tl_cur_op] : "harness",
                         (guard_op && tl_cur_kind >= 0) ? "-of-" : "", (guard_op && tl_cur_kind >= 0) ? kKindNames[tl_cur_kind] : "", g_cls_name, sig,
                         si ? si->si_addr : nullptr, t_mon.tid, tl_cur_op >= 0 ? kOpKNames[tl_cur_op] : "?",
                         (guard_op && tl_cur_kind >= 0) ? kKindNames[tl_cur_kind] : "-");
  if (n > 0) {
    const auto w = write(1, buf, static_cast<size_t>(n));
    (void)w;
  }
  _exit(0);
}

void
SeqPointCb(int id, const void *obj)
{
  using namespace ::dbgroup::verif;
  switch (id) {
    case kMcsXExchanged:
    case kMcsSJoined:
    case kMcsSNewGroup: {
      const int tid = t_mon.tid;
      if (tid >= 0 && tid < kVT && g_boxes_by_tid[tid] != nullptr && t_mon.pend_lock == obj) {
        if (g_boxes_by_tid[tid]->arrived.load(kRlx) == 0) g_boxes_by_tid[tid]->arrived.store(Tick(), kMo);
      }
      break;
    }
    case kMcsNodeTaken:
      NodeStateTaken(obj);
#if VERIF_ASAN
      ASAN_UNPOISON_MEMORY_REGION(obj, 8);
#endif
      break;
    case kMcsNodeRecycle:
      NodeStateRecycled(obj);
#if VERIF_ASAN
      ASAN_POISON_MEMORY_REGION(obj, 8);
#endif
      break;
    default: break;
  }
}

/*------------------------------------------------------------------------------
 * virtual thread
 *----------------------------------------------------------------------------*/
template <class L>
struct VThread {
  using T = Traits<L>;
  using SG = typename L::SGuard;
  using SIXG = typename L::SIXGuard;
  using XG = typename L::XGuard;

  struct OptPart {
    typename Opt::OptGuard og[kSlots];
    typename Opt::CompositeGuard cg[kSlots];
  };
  struct NoOpt {
  };

  SG s[kSlots];
  SIXG six[kSlots];
  XG x[kSlots];
  std::conditional_t<T::kOpt, OptPart, NoOpt> o;

  void
  Snapshot(Res &r)
  {
    r.bools = 0;
    for (int i = 0; i < kSlots; ++i) {
      if (static_cast<bool>(s[i])) r.bools |= 1U << (kKS * 2 + i);
      if (static_cast<bool>(six[i])) r.bools |= 1U << (kKSIX * 2 + i);
      if (static_cast<bool>(x[i])) r.bools |= 1U << (kKX * 2 + i);
      if constexpr (T::kOpt) {
        if (static_cast<bool>(o.cg[i])) r.bools |= 1U << (kKCG * 2 + i);
        if (static_cast<bool>(o.og[i])) r.bools |= 1U << (kKOG * 2 + i);
        r.xver[i] = x[i].GetVersion();
        r.ogver[i] = o.og[i].GetVersion();
        r.cgver[i] = o.cg[i].GetVersion();
      }
    }
  }

  template <class G>
  static void
  DoMoveCtor(G &src, G &dst, Res &r)
  {
    G tmp{std::move(src)};
    r.aux_bools = (static_cast<bool>(src) ? 1U : 0U) | (static_cast<bool>(tmp) ? 2U : 0U);
    dst = std::move(tmp);
    r.aux_bools |= static_cast<bool>(tmp) ? 4U : 0U;
  }
  template <class G>
  static void
  DoMoveAssign(G &dst, G &src)
  {
    dst = std::move(src);
  }
  template <class G>
  static void
  DoDtor(G &g)
  {
    std::destroy_at(&g);
    std::construct_at(&g);
  }

  void
  Exec(L *locks, Mailbox &mb)
  {
    const Cmd c = mb.cmd;
    Res &r = mb.res;
    r = Res{};
    tl_track = 1;
    tl_cur_op = c.op;
    tl_cur_kind = (c.op == kReset || c.op == kDtor || c.op == kMoveCtor || c.op == kMoveAssign) ? c.a : -1;
    switch (c.op) {
      case kLock:
        t_mon.pend_lock = &locks[c.k];
        if (c.a == kS) {
          s[c.b] = locks[c.k].LockS();
        } else if (c.a == kSIX) {
          six[c.b] = locks[c.k].LockSIX();
        } else {
          x[c.b] = locks[c.k].LockX();
        }
        t_mon.pend_lock = nullptr;
        break;
      case kReset:
        if (c.a == kKS) s[c.b] = SG{};
        if (c.a == kKSIX) six[c.b] = SIXG{};
        if (c.a == kKX) x[c.b] = XG{};
        if constexpr (T::kOpt) {
          if (c.a == kKCG) o.cg[c.b] = typename Opt::CompositeGuard{};
        }
        break;
      case kDtor:
        if (c.a == kKS) DoDtor(s[c.b]);
        if (c.a == kKSIX) DoDtor(six[c.b]);
        if (c.a == kKX) DoDtor(x[c.b]);
        if constexpr (T::kOpt) {
          if (c.a == kKCG) DoDtor(o.cg[c.b]);
        }
        break;
      case kMoveCtor:
        if (c.a == kKS) DoMoveCtor(s[c.b], s[c.c], r);
        if (c.a == kKSIX) DoMoveCtor(six[c.b], six[c.c], r);
        if (c.a == kKX) DoMoveCtor(x[c.b], x[c.c], r);
        if constexpr (T::kOpt) {
          if (c.a == kKCG) DoMoveCtor(o.cg[c.b], o.cg[c.c], r);
        }
        break;
      case kMoveAssign: {
        const int from = c.b, to = c.c;  // (may be equal: self move assignment through two references)
        if (c.a == kKS) DoMoveAssign(s[to], s[from]);
        if (c.a == kKSIX) DoMoveAssign(six[to], six[from]);
        if (c.a == kKX) DoMoveAssign(x[to], x[from]);
        if constexpr (T::kOpt) {
          if (c.a == kKCG) DoMoveAssign(o.cg[to], o.cg[from]);
        }
        break;
      }
      case kUpgrade: x[c.c] = six[c.b].UpgradeToX(); break;
      case kDowngrade: six[c.c] = x[c.b].DowngradeToSIX(); break;
      case kSetVer:
        if constexpr (T::kOpt) x[c.b].SetVersion(c.v);
        break;
      default:
        if constexpr (T::kOpt) {
          switch (c.op) {
            case kGetVer: o.og[c.c] = locks[c.k].GetVersion(); break;
            case kVerify: r.ok = o.og[c.b].VerifyVersion(); break;
            case kTryLock:
              if (c.a == kS) {
                s[c.c] = o.og[c.b].TryLockS();
                r.ok = static_cast<bool>(s[c.c]);
              } else if (c.a == kSIX) {
                six[c.c] = o.og[c.b].TryLockSIX();
                r.ok = static_cast<bool>(six[c.c]);
              } else {
                x[c.c] = o.og[c.b].TryLockX();
                r.ok = static_cast<bool>(x[c.c]);
              }
              break;
            case kPrepare: o.cg[c.c] = locks[c.k].PrepareRead(); break;
            case kCgVerify: r.ok = o.cg[c.b].VerifyVersion(); break;
            case kOgCopy: o.og[c.c] = o.og[c.b]; break;
            default: break;
          }
        }
        break;
    }
    tl_track = 0;
    tl_cur_op = -1;
    Snapshot(r);
    r.done_tick = Tick();
  }
};

/*------------------------------------------------------------------------------
 * model
 *----------------------------------------------------------------------------*/
struct MSlot {
  bool own{false};
  int lock{-1};
  int mode{0};
  uint32_t old_ver{0}, new_ver{0};  // X guards
  uint32_t ver{0};                  // og / cg
  bool bound{false};                // og: has a lock
};

struct VerEntry {
  uint32_t ver;
  uint64_t t_lo, t_hi;  // became current somewhere in [t_lo, t_hi]
};

struct Holder {
  int t;
  int mode;
  uint64_t acq;  // completion ticket of the acquiring operation
  bool conv{false};  // grant obtained through UpgradeToX / DowngradeToSIX
};

struct MLock {
  int nS{0}, nSIX{0}, nX{0};
  std::vector<Holder> holders;
  // holders of the given modes whose acquiring operation completed before ticket `before`
  int
  HeldSince(uint64_t before, bool s, bool six, bool x) const
  {
    int n = 0;
    for (auto &h : holders) {
      if (h.acq < before && ((h.mode == kS && s) || (h.mode == kSIX && six) || (h.mode == kX && x))) ++n;
    }
    return n;
  }
  std::vector<VerEntry> vers;  // history; back() is current (if its t_hi is known)
  uint32_t
  Cur() const
  {
    return vers.back().ver;
  }
};

struct Pending {
  bool active{false};
  Cmd cmd;
  uint64_t issued{0};
  int pre_released_lock{-1};
  int pre_released_mode{-1};
  uint32_t pre_old_ver{0}, pre_new_ver{0};
};

template <class L>
class Controller
{
 public:
  using T = Traits<L>;
  using VT = VThread<L>;

  L locks_[kLocksE1];
  Mailbox boxes_[kVT];
  std::unique_ptr<VT> vts_[kVT];
  std::thread ths_[kVT];
  int nthreads_{2};
  int nlocks_{1};
  Rng r_;
  Result res_;
  std::set<std::string> sigs_;
  std::map<std::string, uint64_t> opcount_;
  std::string trace_;  // program text of the current program
  bool failed_{false};

  // model
  MSlot ms_[kVT][5][kSlots];
  MLock ml_[kLocksE1];
  Pending pend_[kVT];

  void
  ThreadMain(int t)
  {
    ChaosThreadBegin(t, g_scfg.seed * 31 + t);
    t_mon = MonTls{};
    t_mon.tid = t;
    auto &mb = boxes_[t];
    while (true) {
      while (mb.state.load(std::memory_order_acquire) != 1) sched_yield();
      if (mb.cmd.op == kExit) {
        mb.state.store(2, std::memory_order_release);
        break;
      }
      mb.in_lib.store(1, kRlx);
      vts_[t]->Exec(locks_, mb);
      mb.in_lib.store(0, kRlx);
      mb.state.store(2, std::memory_order_release);
    }
    ChaosThreadEnd();
  }

  /*---------------------------------------------------------------- helpers --*/
  std::string
  CmdStr(int t, const Cmd &c)
  {
    switch (c.op) {
      case kLock: return Fmt("t%d: %s%d = L%d.Lock%s()", t, c.a == kS ? "s" : (c.a == kSIX ? "six" : "x"), c.b, c.k, ModeName(c.a));
      case kReset: return Fmt("t%d: %s[%d] = {}", t, kKindNames[c.a], c.b);
      case kDtor: return Fmt("t%d: destroy %s[%d]", t, kKindNames[c.a], c.b);
      case kMoveCtor: return Fmt("t%d: %s tmp{move([%d])}; [%d] = move(tmp)", t, kKindNames[c.a], c.b, c.c);
      case kMoveAssign: return Fmt("t%d: %s[%d] = move([%d])", t, kKindNames[c.a], c.c, c.b);
      case kUpgrade: return Fmt("t%d: x%d = six%d.UpgradeToX()", t, c.c, c.b);
      case kDowngrade: return Fmt("t%d: six%d = x%d.DowngradeToSIX()", t, c.c, c.b);
      case kGetVer: return Fmt("t%d: og%d = L%d.GetVersion()", t, c.c, c.k);
      case kVerify: return Fmt("t%d: og%d.VerifyVersion()", t, c.b);
      case kTryLock: return Fmt("t%d: [%d] = og%d.TryLock%s()", t, c.c, c.b, ModeName(c.a));
      case kPrepare: return Fmt("t%d: cg%d = L%d.PrepareRead()", t, c.c, c.k);
      case kCgVerify: return Fmt("t%d: cg%d.VerifyVersion()", t, c.b);
      case kSetVer: return Fmt("t%d: x%d.SetVersion(%u)", t, c.b, c.v);
      case kOgCopy: return Fmt("t%d: og%d = og%d", t, c.c, c.b);
      default: return "?";
    }
  }

  void
  Fail(const char *prop, const std::string &key, const std::string &detail)
  {
    failed_ = true;
    Violate(prop, Fmt("%s:%s", T::kName, key.c_str()), Fmt("class=%s %s; program so far: %s", T::kName, detail.c_str(), trace_.c_str()));
  }

  // grants thread t holds on lock k (model)
  int
  Holds(int t, int k, int *mode_out = nullptr)
  {
    int n = 0;
    for (int kind = 0; kind < 4; ++kind) {
      for (int i = 0; i < kSlots; ++i) {
        auto &m = ms_[t][kind][i];
        if (m.own && m.lock == k) {
          ++n;
          if (mode_out) *mode_out = m.mode;
        }
      }
    }
    return n;
  }
  bool
  HoldsAbove(int t, int k)
  {
    for (int j = k + 1; j < kLocksE1; ++j) {
      if (Holds(t, j)) return true;
    }
    return false;
  }

  void
  AddHolder(int k, int mode, int d, int t = -1, uint64_t acq = 0, bool conv = false)
  {
    if (mode == kS) ml_[k].nS += d;
    if (mode == kSIX) ml_[k].nSIX += d;
    if (mode == kX) ml_[k].nX += d;
    auto &hs = ml_[k].holders;
    if (d > 0) {
      hs.push_back({t, mode, acq, conv});
    } else {
      for (size_t i = 0; i < hs.size(); ++i) {
        if (hs[i].mode == mode && (t < 0 || hs[i].t == t)) {
          hs.erase(hs.begin() + static_cast<long>(i));
          break;
        }
      }
    }
  }

  // register a grant observed at completion; conflict with the model's holders is a violation
  void
  Grant(int t, int k, int mode, const char *api, uint64_t acq, const char *prop = "C01")
  {
    auto &l = ml_[k];
    const bool bad = l.nX > 0 || (mode != kS && l.nSIX > 0) || (mode == kX && l.nS > 0);
    sigs_.insert(Fmt("%s:grant:%s:%s:model-holders=%s", T::kName, api, ModeName(mode),
                     l.nX ? "X" : (l.nSIX && l.nS ? "S+SIX" : (l.nSIX ? "SIX" : (l.nS ? "S" : "free")))));
    bool conv_held = false;
    for (auto &h : l.holders) conv_held |= h.conv;
    if (bad && mode != kS && conv_held) {
      Fail("C10", Fmt("%s-granted-%s-while-converted-grant-held", api, ModeName(mode)),
           Fmt("t%d obtained %s on lock %d via %s while another thread still holds the grant it obtained through UpgradeToX/DowngradeToSIX "
               "(model S:%d SIX:%d X:%d)",
               t, ModeName(mode), k, api, l.nS, l.nSIX, l.nX));
    }
    if (bad) {
      Fail(prop, Fmt("%s-granted-%s-while-conflicting-grant-held", api, ModeName(mode)),
           Fmt("t%d obtained %s on lock %d via %s while the model (grants added when their acquiring operation was observed complete, "
               "removed before their releasing operation is issued) holds S:%d SIX:%d X:%d",
               t, ModeName(mode), k, api, l.nS, l.nSIX, l.nX));
    }
    AddHolder(k, mode, +1, t, acq);
  }

  // called before issuing an operation that releases the grant in slot m
  void
  PreRelease(int t, MSlot &m, uint64_t now)
  {
    if (!m.own) return;
    AddHolder(m.lock, m.mode, -1, t);
    if (m.mode == kX && T::kOpt) {
      ml_[m.lock].vers.push_back({m.new_ver, now, 0});
    }
    m.own = false;
  }
  void
  PostRelease(int k, uint64_t done_tick)
  {
    if (k >= 0 && T::kOpt && !ml_[k].vers.empty() && ml_[k].vers.back().t_hi == 0) ml_[k].vers.back().t_hi = done_tick;
  }

  // versions that can have been current at some instant of [t0, t1]
  std::vector<uint32_t>
  PossibleVersions(int k, uint64_t t0, uint64_t t1)
  {
    std::vector<uint32_t> out;
    auto &v = ml_[k].vers;
    for (size_t i = 0; i < v.size(); ++i) {
      const uint64_t from = v[i].t_lo;                                                         // earliest start
      const uint64_t to = (i + 1 < v.size()) ? (v[i + 1].t_hi ? v[i + 1].t_hi : ~0ULL) : ~0ULL;  // latest end
      if (from <= t1 && to >= t0) out.push_back(v[i].ver);
    }
    return out;
  }
  static bool
  In(const std::vector<uint32_t> &v, uint32_t x)
  {
    return std::find(v.begin(), v.end(), x) != v.end();
  }
  static std::string
  VStr(const std::vector<uint32_t> &v)
  {
    std::string s = "{";
    for (auto x : v) s += Fmt("%u,", x);
    return s + "}";
  }

  /*---------------------------------------------------------------- issuing --*/
  void
  Post(int t, const Cmd &c)
  {
    auto &mb = boxes_[t];
    mb.cmd = c;
    mb.arrived.store(0, kMo);
    mb.state.store(1, std::memory_order_release);
  }

  bool
  Done(int t)
  {
    return boxes_[t].state.load(std::memory_order_acquire) == 2;
  }

  // wait until op of thread t completes; for MCS Lock ops until it completes or has announced itself
  // returns true if completed
  bool
  WaitGrace(int t, bool is_mcs_lock)
  {
    const auto t0 = NowNs();
    const auto grace = g_scfg.grace_us * 1000ULL;
    while (true) {
      if (Done(t)) return true;
      const auto el = NowNs() - t0;
      if (is_mcs_lock) {
        // the arrival order must be known before the next operation is issued
        if (boxes_[t].arrived.load(kMo) != 0 && el > grace) return false;
        if (el > g_scfg.hang_s * 1000000000ULL) return false;
      } else if (el > grace) {
        return false;
      }
      if (el > 20000) sched_yield();
    }
  }

  /*---------------------------------------------------------------- completion */
  void
  CheckBools(int t, const Res &r, const std::string &what)
  {
    for (int kind = 0; kind < (T::kOpt ? 5 : 3); ++kind) {
      for (int i = 0; i < kSlots; ++i) {
        const bool got = (r.bools >> (kind * 2 + i)) & 1U;
        const bool exp = kind == kKOG ? false : ms_[t][kind][i].own;
        if (got != exp) {
          Fail(kind == kKCG ? "C13" : "C07", Fmt("guard-bool-mismatch:%s", kKindNames[kind]),
               Fmt("after '%s': t%d %s[%d] converts to %d but the ownership model says %d", what.c_str(), t, kKindNames[kind], i,
                   static_cast<int>(got), static_cast<int>(exp)));
          ms_[t][kind][i].own = got;  // resynchronise to limit follow-up noise
        }
      }
    }
    if constexpr (T::kOpt) {
      for (int i = 0; i < kSlots; ++i) {
        auto &mx = ms_[t][kKX][i];
        if (mx.own && r.xver[i] != mx.old_ver) {
          Fail("C09", "XGuard-GetVersion-wrong",
               Fmt("after '%s': t%d x%d.GetVersion()=%u but the version current when the grant began was %u", what.c_str(), t, i, r.xver[i],
                   mx.old_ver));
        }
        auto &mo = ms_[t][kKOG][i];
        if (mo.bound && r.ogver[i] != mo.ver) {
          Fail("C03", "OptGuard-version-wrong",
               Fmt("after '%s': t%d og%d.GetVersion()=%u, model %u", what.c_str(), t, i, r.ogver[i], mo.ver));
          mo.ver = r.ogver[i];
        }
      }
    }
  }

  // apply the effects of a completed operation; sync = completed within the grace period (state exact)
  void
  Complete(int t, const Cmd &c, const Res &r, uint64_t issued, bool sync)
  {
    const auto what = CmdStr(t, c);
    opcount_[Fmt("%s%s", kOpKNames[c.op], sync ? "" : "(completed-later)")]++;
    auto ver_set = [&](int k) { return sync ? std::vector<uint32_t>{ml_[k].Cur()} : PossibleVersions(k, issued, r.done_tick); };
    switch (c.op) {
      case kLock: {
        auto &m = ms_[t][c.a][c.b];
        Grant(t, c.k, c.a, "Lock", r.done_tick);
        m = MSlot{};
        m.own = true;
        m.lock = c.k;
        m.mode = c.a;
        if (c.a == kX && T::kOpt) {
          const auto vs = ver_set(c.k);
          const auto got = r.xver[c.b];
          if (!In(vs, got)) {
            Fail("C09", "XGuard-GetVersion-wrong", Fmt("'%s' completed: GetVersion()=%u, version(s) current during the call %s", what.c_str(), got, VStr(vs).c_str()));
          }
          m.old_ver = got;
          m.new_ver = got + 1U;
          // the lock's version is now known exactly
          if (!sync) FixCurrent(c.k, got);
        }
        // C11 (MCS): nobody that announced itself earlier and conflicts may still be waiting
        if constexpr (T::kMcs) CheckFifo(t, c, issued);
        break;
      }
      case kReset:
      case kDtor:
        PostRelease(pend_[t].pre_released_lock, r.done_tick);
        ms_[t][c.a][c.b] = MSlot{};
        break;
      case kMoveCtor: {
        auto &src = ms_[t][c.a][c.b];
        auto &dst = ms_[t][c.a][c.c];
        const bool src_own = src.own;  // (dst was pre-released)
        const bool e_src_after = false, e_tmp = src_own;
        if (((r.aux_bools & 1U) != 0) != e_src_after || ((r.aux_bools & 2U) != 0) != e_tmp || (r.aux_bools & 4U) != 0) {
          Fail("C07", Fmt("move-constructor-ownership:%s", kKindNames[c.a]),
               Fmt("'%s': moved-from converts to %d (expected 0), move-constructed temporary to %d (expected %d), temporary after "
                   "move-assignment to %d (expected 0)",
                   what.c_str(), (r.aux_bools & 1U) ? 1 : 0, (r.aux_bools & 2U) ? 1 : 0, e_tmp ? 1 : 0, (r.aux_bools & 4U) ? 1 : 0));
        }
        if (c.b != c.c) {
          dst = src;
          src.own = false;
          if (c.a == kKCG) src.bound = dst.bound;
        }
        PostRelease(pend_[t].pre_released_lock, r.done_tick);
        break;
      }
      case kMoveAssign: {
        auto &src = ms_[t][c.a][c.b];
        auto &dst = ms_[t][c.a][c.c];
        if (c.b != c.c) {
          dst = src;
          src.own = false;
        } else {
          dst.own = false;  // released before the call was issued; the guard ends up empty
          sigs_.insert(Fmt("%s:self-move-assignment:%s", T::kName, kKindNames[c.a]));
        }
        PostRelease(pend_[t].pre_released_lock, r.done_tick);
        break;
      }
      case kUpgrade: {
        auto &src = ms_[t][kKSIX][c.b];
        auto &dst = ms_[t][kKX][c.c];
        if (src.own) {
          const int k = src.lock;
          auto &l = ml_[k];
          if (l.nS > 0 || l.nX > 0 || l.nSIX != 1) {
            Fail("C10", "UpgradeToX-returned-while-other-grants-held",
                 Fmt("'%s' returned while the model holds S:%d SIX:%d (own included) X:%d on lock %d", what.c_str(), l.nS, l.nSIX, l.nX, k));
          }
          AddHolder(k, kSIX, -1, t);
          AddHolder(k, kX, +1, t, r.done_tick, true);
          dst = MSlot{};
          dst.own = true;
          dst.lock = k;
          dst.mode = kX;
          if (T::kOpt) {
            dst.old_ver = ml_[k].Cur();
            dst.new_ver = dst.old_ver + 1U;
          }
          src.own = false;
          sigs_.insert(Fmt("%s:upgrade:owning", T::kName));
        } else {
          dst.own = false;
          sigs_.insert(Fmt("%s:upgrade:empty-guard", T::kName));
        }
        break;
      }
      case kDowngrade: {
        auto &dst = ms_[t][kKSIX][c.c];
        // (the model was switched to SIX before the call was issued)
        if (pend_[t].pre_released_lock >= 0) {
          dst = MSlot{};
          dst.own = true;
          dst.lock = pend_[t].pre_released_lock;
          dst.mode = kSIX;
          PostRelease(dst.lock, r.done_tick);
          sigs_.insert(Fmt("%s:downgrade:owning", T::kName));
        } else {
          dst.own = false;
          sigs_.insert(Fmt("%s:downgrade:empty-guard", T::kName));
        }
        break;
      }
      case kSetVer: {
        auto &m = ms_[t][kKX][c.b];
        m.new_ver = c.v;
        break;
      }
      case kGetVer: {
        auto &m = ms_[t][kKOG][c.c];
        const auto vs = ver_set(c.k);
        const auto got = r.ogver[c.c];
        if (ml_[c.k].HeldSince(issued, false, false, true) > 0) {
          Fail("C03", "GetVersion-returned-while-exclusive-grant-held",
               Fmt("'%s' returned although an X grant on lock %d was held from before the call was issued until after it returned", what.c_str(), c.k));
        }
        if (!In(vs, got)) {
          Fail("C03", "GetVersion-returned-a-version-that-was-never-current", Fmt("'%s' returned %u, version(s) current during the call %s", what.c_str(), got, VStr(vs).c_str()));
        }
        m = MSlot{};
        m.bound = true;
        m.lock = c.k;
        m.ver = got;
        break;
      }
      case kOgCopy: ms_[t][kKOG][c.c] = ms_[t][kKOG][c.b]; break;
      case kVerify:
      case kCgVerify: {
        auto &m = ms_[t][c.op == kVerify ? kKOG : kKCG][c.b];
        if (c.op == kCgVerify && m.own) {
          if (!r.ok) Fail("C13", "owning-CompositeGuard-VerifyVersion-failed", Fmt("'%s' returned false on an owning guard", what.c_str()));
          break;
        }
        const int k = m.lock;
        const char *vprop = (c.op == kCgVerify) ? "C13" : "C03";
        if (ml_[k].HeldSince(issued, false, false, true) > 0) {
          Fail(vprop, "VerifyVersion-returned-while-exclusive-grant-held",
               Fmt("'%s' returned although an X grant on lock %d was held from before the call was issued until after it returned", what.c_str(), k));
        }
        const auto vs = ver_set(k);
        const auto now_ver = (c.op == kVerify) ? r.ogver[c.b] : r.cgver[c.b];
        if (!In(vs, now_ver)) {
          Fail(vprop, "check-left-a-version-that-was-never-current",
               Fmt("'%s': guard carries %u afterwards, version(s) current during the call %s", what.c_str(), now_ver, VStr(vs).c_str()));
        }
        const bool expect = (now_ver == m.ver);
        if (r.ok != expect) {
          Fail(vprop, r.ok ? "VerifyVersion-succeeded-although-version-changed" : "VerifyVersion-failed-although-version-unchanged",
               Fmt("'%s' returned %d; guard carried %u, lock version observed by the call %u", what.c_str(), static_cast<int>(r.ok), m.ver, now_ver));
        }
        sigs_.insert(Fmt("%s:%s:%s:%s", T::kName, kOpKNames[c.op], r.ok ? "ok" : "failed", sync ? "immediate" : "completed-later"));
        m.ver = now_ver;
        break;
      }
      case kTryLock: {
        auto &og = ms_[t][kKOG][c.b];
        auto &dst = ms_[t][c.a][c.c];
        const int k = og.lock;
        const auto vs = ver_set(k);
        const auto now_ver = r.ogver[c.b];
        if (!In(vs, now_ver)) {
          Fail("C03", "check-left-a-version-that-was-never-current",
               Fmt("'%s': guard carries %u afterwards, version(s) current during the call %s", what.c_str(), now_ver, VStr(vs).c_str()));
        }
        const bool expect = (now_ver == og.ver);
        if (r.ok != expect) {
          Fail("C03", r.ok ? "TryLock-succeeded-although-version-changed" : "TryLock-failed-although-version-unchanged",
               Fmt("'%s' owning=%d; guard carried %u, lock version observed by the call %u", what.c_str(), static_cast<int>(r.ok), og.ver, now_ver));
        }
        og.ver = now_ver;
        dst = MSlot{};
        if (r.ok) {
          Grant(t, k, c.a, "TryLock", r.done_tick);
          dst.own = true;
          dst.lock = k;
          dst.mode = c.a;
          if (c.a == kX) {
            dst.old_ver = now_ver;
            dst.new_ver = now_ver + 1U;
            if (!sync) FixCurrent(k, now_ver);
          }
        }
        sigs_.insert(Fmt("%s:TryLock%s:%s:%s", T::kName, ModeName(c.a), r.ok ? "ok" : "failed", sync ? "immediate" : "completed-later"));
        break;
      }
      case kPrepare: {
        auto &dst = ms_[t][kKCG][c.c];
        const bool owning = (r.bools >> (kKCG * 2 + c.c)) & 1U;
        if (ml_[c.k].HeldSince(issued, false, false, true) > 0) {
          Fail("C13", "PrepareRead-returned-while-exclusive-grant-held",
               Fmt("'%s' returned although an X grant on lock %d was held from before the call was issued until after it returned", what.c_str(), c.k));
        }
        dst = MSlot{};
        dst.lock = c.k;
        dst.bound = true;
        if (owning) {
          if (ml_[c.k].HeldSince(issued, true, true, false) > 0) {
            Fail("C13", "PrepareRead-took-shared-grant-while-lock-not-free",
                 Fmt("'%s' returned an owning guard although %d S/SIX grant(s) on lock %d were held from before the call was issued until "
                     "after it returned (the lock was never free during the call)",
                     what.c_str(), ml_[c.k].HeldSince(issued, true, true, false), c.k));
          }
          Grant(t, c.k, kS, "PrepareRead", r.done_tick);
          dst.own = true;
          dst.mode = kS;
        } else {
          const auto vs = ver_set(c.k);
          if (!In(vs, r.cgver[c.c])) {
            Fail("C13", "PrepareRead-returned-a-version-that-was-never-current",
                 Fmt("'%s' returned %u, version(s) current during the call %s", what.c_str(), r.cgver[c.c], VStr(vs).c_str()));
          }
          dst.ver = r.cgver[c.c];
        }
        sigs_.insert(Fmt("%s:PrepareRead:%s:%s", T::kName, owning ? "owning" : "optimistic", sync ? "immediate" : "completed-later"));
        break;
      }
      default: break;
    }
    CheckWordAfterExclusiveRelease(t, c, what);
    CheckWordMatchesModel(t, c, what);
    pend_[t].pre_released_lock = -1;
    pend_[t].pre_released_mode = -1;
    CheckBools(t, r, what);
  }

  // C07 (and C10 for conversions): with no operation in flight, the mode state in the lock word must be exactly
  // the grants owned by guards according to the ownership model: a guard that converts to true without a grant, a
  // grant released twice or never, or a conversion that leaves a wrong mode all show up here.  Uses the documented
  // word layouts (PessimisticLock: bit63 X, bit62 SIX, bits 0-61 shared count; OptimisticLock: bit63 X, bit62 SIX,
  // bits 32-61 shared count); MCSLock's word describes only the tail group and is not checked.
  void
  CheckWordMatchesModel(int t, const Cmd &c, const std::string &what)
  {
    if constexpr (!T::kMcs) {
      if (failed_) return;
      for (int u = 0; u < kVT; ++u) {
        if (pend_[u].active) return;
      }
      int ks[2] = {-1, -1};
      switch (c.op) {
        case kLock:
        case kGetVer:
        case kPrepare: ks[0] = c.k; break;
        case kReset:
        case kDtor:
        case kMoveCtor:
        case kMoveAssign:
        case kDowngrade: ks[0] = pend_[t].pre_released_lock; break;
        case kUpgrade: ks[0] = ms_[t][kKX][c.c].own ? ms_[t][kKX][c.c].lock : -1; break;
        case kTryLock: ks[0] = ms_[t][kKOG][c.b].lock; break;
        default: break;
      }
      for (int k : ks) {
        if (k < 0) continue;
        const auto word = reinterpret_cast<std::atomic<uint64_t> *>(&locks_[k])->load(std::memory_order_acquire);
        uint64_t s_cnt = 0;
        if constexpr (T::kOpt) {
          s_cnt = (word >> 32) & 0x3FFFFFFFULL;
        } else {
          s_cnt = word & 0x3FFFFFFFFFFFFFFFULL;
        }
        const bool six = (word >> 62) & 1ULL, x = (word >> 63) & 1ULL;
        auto &l = ml_[k];
        if (s_cnt != static_cast<uint64_t>(l.nS) || six != (l.nSIX > 0) || x != (l.nX > 0)) {
          const bool conv = c.op == kUpgrade || c.op == kDowngrade;
          const bool composite = c.op == kPrepare || ((c.op == kReset || c.op == kDtor || c.op == kMoveCtor || c.op == kMoveAssign) && c.a == kKCG);
          Fail(conv ? "C10" : (composite ? "C13" : "C07"), Fmt("lock-word-disagrees-with-guard-ownership-after-%s", kOpKNames[c.op]),
               Fmt("after '%s' (no operation in flight) the guards that convert to true own S:%d SIX:%d X:%d on lock %d, but the lock word "
                   "%016" PRIx64 " encodes S:%" PRIu64 " SIX:%d X:%d",
                   what.c_str(), l.nS, l.nSIX, l.nX, k, word, s_cnt, static_cast<int>(six), static_cast<int>(x)));
        }
      }
    } else {
      (void)t;
      (void)c;
      (void)what;
    }
  }

  // C09: right after an exclusive grant ended, with nothing else going on, the lock word must consist of the
  // published version and the mode state the model expects (OptimisticLock: bits 0-31 version, bits 32-61 shared
  // count, bit 62 SIX, bit 63 X - the layout named in the property's own anchors)
  void
  CheckWordAfterExclusiveRelease(int t, const Cmd &c, const std::string &what)
  {
    if constexpr (T::kOpt) {
      const int k = pend_[t].pre_released_lock;
      if (k < 0 || pend_[t].pre_released_mode != kX) return;
      for (int u = 0; u < kVT; ++u) {
        if (pend_[u].active) return;  // something else may be changing the word
      }
      const auto word = reinterpret_cast<std::atomic<uint64_t> *>(&locks_[k])->load(std::memory_order_acquire);
      const uint64_t expect_mode = (static_cast<uint64_t>(ml_[k].nS) << 32) | (ml_[k].nSIX ? (1ULL << 62) : 0) | (ml_[k].nX ? (1ULL << 63) : 0);
      const uint32_t nv = pend_[t].pre_new_ver, ov = pend_[t].pre_old_ver;
      const char *vc = (ov == 0xFFFFFFFFU) ? "wrap-around" : ((nv == 0 || nv == 0xFFFFFFFFU || nv == 0x80000000U || nv == 0x7FFFFFFFU) ? "extreme-value" : "ordinary-value");
      if ((word >> 32) != (expect_mode >> 32)) {
        Fail("C09", Fmt("lock-mode-state-disturbed-after-publishing-version:%s", vc),
             Fmt("after '%s' ended an exclusive grant that began at version %u and published %u, the lock word is %016" PRIx64
                 " but the model expects mode bits %08" PRIx64 " (S:%d SIX:%d X:%d)",
                 what.c_str(), ov, nv, word, expect_mode >> 32, ml_[k].nS, ml_[k].nSIX, ml_[k].nX));
      } else if (static_cast<uint32_t>(word) != nv) {
        Fail("C09", Fmt("published-version-differs-from-requested:%s", vc),
             Fmt("after '%s' ended an exclusive grant that began at version %u the lock carries version %u, expected %u", what.c_str(), ov,
                 static_cast<uint32_t>(word), nv));
      }
      sigs_.insert(Fmt("opt:x-release-word-check:%s:%s", kOpKNames[c.op], vc));
    } else {
      (void)t;
      (void)c;
      (void)what;
    }
  }

  // after an asynchronously completed X acquisition the current version is known exactly
  void
  FixCurrent(int k, uint32_t ver)
  {
    (void)k;
    (void)ver;
  }

  void
  CheckFifo(int t, const Cmd &c, uint64_t issued)
  {
    for (int u = 0; u < nthreads_; ++u) {
      if (u == t || !pend_[u].active) continue;
      const auto &pc = pend_[u].cmd;
      if (pc.op != kLock || pc.k != c.k || !Conflict(pc.a, c.a)) continue;
      const auto arr = boxes_[u].arrived.load(kMo);
      if (arr != 0 && arr < issued && !Done(u)) {
        Fail("C11", Fmt("%s-overtook-earlier-%s", ModeName(c.a), ModeName(pc.a)),
             Fmt("t%d's Lock%s on lock %d was issued at ticket %" PRIu64 " and has been granted while t%d's conflicting Lock%s, which "
                 "announced itself at ticket %" PRIu64 ", is still waiting",
                 t, ModeName(c.a), c.k, issued, u, ModeName(pc.a), arr));
      }
      sigs_.insert(Fmt("mcs:fifo-pair:%s-after-%s", ModeName(c.a), ModeName(pc.a)));
    }
  }

  /*---------------------------------------------------------------- generator */
  // choose an operation for idle thread t that satisfies the client-side rules; returns false if none found
  bool
  Generate(int t, Cmd &c, bool drain)
  {
    for (int attempt = 0; attempt < 40; ++attempt) {
      c = Cmd{};
      const auto pick = drain ? 100 : r_.Below(100);
      const int k = static_cast<int>(r_.Below(nlocks_));
      const int i = static_cast<int>(r_.Below(kSlots)), j = static_cast<int>(r_.Below(kSlots));
      auto may_touch = [&](int lock) { return !HoldsAbove(t, lock); };
      if (drain) {
        // release the grant on the highest lock first
        for (int lock = kLocksE1 - 1; lock >= 0; --lock) {
          for (int kind = 0; kind < 4; ++kind) {
            for (int s = 0; s < kSlots; ++s) {
              auto &m = ms_[t][kind][s];
              if (m.own && m.lock == lock) {
                c.op = r_.Chance(1, 2) ? kReset : kDtor;
                c.a = kind;
                c.b = s;
                return true;
              }
            }
          }
        }
        return false;
      }
      if (pick < 22) {
        c.op = kLock;
        c.a = static_cast<int>(r_.Below(3));
        c.k = k;
        c.b = i;
        if (ms_[t][c.a][c.b].own || Holds(t, k) || !may_touch(k)) continue;
        return true;
      }
      if (pick < 38) {
        c.op = r_.Chance(1, 2) ? kReset : kDtor;
        c.a = static_cast<int>(r_.Below(T::kOpt ? 4 : 3));
        c.b = i;
        auto &m = ms_[t][c.a][c.b];
        if (m.own && !may_touch(m.lock)) continue;
        if (!m.own && r_.Chance(2, 3)) continue;  // mostly owning guards
        return true;
      }
      if (pick < 52) {
        c.op = r_.Chance(1, 2) ? kMoveCtor : kMoveAssign;
        c.a = static_cast<int>(r_.Below(T::kOpt ? 4 : 3));
        c.b = i;
        c.c = j;
        if (c.op == kMoveAssign && c.b == c.c && !r_.Chance(1, 3)) continue;  // self move assignment: rarely
        auto &dst = ms_[t][c.a][c.c];
        if ((c.b != c.c || c.op == kMoveAssign) && dst.own && !may_touch(dst.lock)) continue;
        return true;
      }
      if (pick < 62) {
        c.op = kUpgrade;
        c.b = i;
        c.c = j;
        auto &src = ms_[t][kKSIX][c.b];
        if (ms_[t][kKX][c.c].own) continue;
        if (src.own && !may_touch(src.lock)) continue;
        if (!src.own && r_.Chance(3, 4)) continue;
        return true;
      }
      if (pick < 72) {
        c.op = kDowngrade;
        c.b = i;
        c.c = j;
        auto &src = ms_[t][kKX][c.b];
        if (ms_[t][kKSIX][c.c].own) continue;
        if (src.own && !may_touch(src.lock)) continue;
        if (!src.own && r_.Chance(3, 4)) continue;
        return true;
      }
      if constexpr (T::kOpt) {
        int held_mode = -1;
        if (pick < 78) {
          c.op = kGetVer;
          c.k = k;
          c.c = j;
          const int n = Holds(t, k, &held_mode);
          if ((n && held_mode == kX) || !may_touch(k)) continue;
          return true;
        }
        if (pick < 84) {
          c.op = kVerify;
          c.b = i;
          auto &m = ms_[t][kKOG][c.b];
          if (!m.bound) continue;
          const int n = Holds(t, m.lock, &held_mode);
          if ((n && held_mode == kX) || !may_touch(m.lock)) continue;
          return true;
        }
        if (pick < 90) {
          c.op = kTryLock;
          c.a = static_cast<int>(r_.Below(3));
          c.b = i;
          c.c = j;
          auto &m = ms_[t][kKOG][c.b];
          if (!m.bound || ms_[t][c.a][c.c].own || Holds(t, m.lock) || !may_touch(m.lock)) continue;
          return true;
        }
        if (pick < 94) {
          c.op = kPrepare;
          c.k = k;
          c.c = j;
          if (ms_[t][kKCG][c.c].own || Holds(t, k) || !may_touch(k)) continue;
          return true;
        }
        if (pick < 96) {
          c.op = kCgVerify;
          c.b = i;
          auto &m = ms_[t][kKCG][c.b];
          if (!m.bound) continue;
          const int n = Holds(t, m.lock, &held_mode);
          if (!m.own && ((n && held_mode == kX) || !may_touch(m.lock))) continue;
          return true;
        }
        if (pick < 99) {
          c.op = kSetVer;
          c.b = i;
          if (!ms_[t][kKX][c.b].own) continue;
          static const uint32_t kSpecial[] = {0U, 1U, 0x7FFFFFFFU, 0x80000000U, 0xFFFFFFFFU, 0xFFFFFFFEU, 2U};
          c.v = r_.Chance(1, 2) ? kSpecial[r_.Below(7)] : static_cast<uint32_t>(r_.Next());
          if (r_.Chance(1, 4)) c.v = ms_[t][kKX][c.b].old_ver;  // republish
          return true;
        }
        c.op = kOgCopy;
        c.b = i;
        c.c = j;
        return true;
      }
    }
    return false;
  }

  // model effects that must be applied before the operation is issued (releases)
  void
  PreIssue(int t, const Cmd &c, uint64_t now)
  {
    pend_[t].pre_released_lock = -1;
    pend_[t].pre_released_mode = -1;
    auto pre = [&](MSlot &m) {
      if (m.own) {
        pend_[t].pre_released_lock = m.lock;
        pend_[t].pre_released_mode = m.mode;
        pend_[t].pre_old_ver = m.old_ver;
        pend_[t].pre_new_ver = m.new_ver;
        PreRelease(t, m, now);
      }
    };
    switch (c.op) {
      case kReset:
      case kDtor: pre(ms_[t][c.a][c.b]); break;
      case kMoveCtor:
        if (c.b != c.c) pre(ms_[t][c.a][c.c]);
        break;
      case kMoveAssign:
        pre(ms_[t][c.a][c.c]);  // (self move assignment releases the grant as well and leaves the guard empty)
        break;
      case kDowngrade: {
        auto &m = ms_[t][kKX][c.b];
        if (m.own) {
          // X -> SIX: the model shows SIX from now on; the version is published by the downgrade
          pend_[t].pre_released_lock = m.lock;
          pend_[t].pre_released_mode = kX;
          pend_[t].pre_old_ver = m.old_ver;
          pend_[t].pre_new_ver = m.new_ver;
          AddHolder(m.lock, kX, -1, t);
          AddHolder(m.lock, kSIX, +1, t, now, true);
          if (T::kOpt) ml_[m.lock].vers.push_back({m.new_ver, now, 0});
          m.own = false;
        }
        break;
      }
      default: break;
    }
  }

  /*---------------------------------------------------------------- program --*/
  bool
  Poll()
  {
    bool any = false;
    for (int t = 0; t < nthreads_; ++t) {
      if (pend_[t].active && Done(t)) {
        const auto res = boxes_[t].res;
        const auto cmd = pend_[t].cmd;
        pend_[t].active = false;
        boxes_[t].state.store(0, kMo);
        trace_ += Fmt(" | [completes] %s", CmdStr(t, cmd).c_str());
        Complete(t, cmd, res, pend_[t].issued, false);
        any = true;
      }
    }
    return any;
  }

  // returns false on hang
  bool
  WaitAnyCompletion(const char *phase)
  {
    const auto t0 = NowNs();
    const auto cpu0 = CpuNs();
    while (true) {
      if (Poll()) return true;
      const auto el = NowNs() - t0;
      if (el > g_scfg.hang_s * 1000000000ULL) {
        if (CpuNs() - cpu0 < 100000000ULL && el < 6 * g_scfg.hang_s * 1000000000ULL) {
          SleepNs(1000000);
          continue;
        }
        std::string st;
        for (int t = 0; t < nthreads_; ++t) {
          if (pend_[t].active) st += Fmt("[pending %s] ", CmdStr(t, pend_[t].cmd).c_str());
        }
        std::string holders;
        for (int k = 0; k < kLocksE1; ++k) {
          holders += Fmt("L%d{S:%d,SIX:%d,X:%d,word=%016" PRIx64 "} ", k, ml_[k].nS, ml_[k].nSIX, ml_[k].nX,
                         reinterpret_cast<std::atomic<uint64_t> *>(&locks_[k])->load(kRlx));
        }
        bool any_holder = false;
        for (int k = 0; k < kLocksE1; ++k) any_holder |= (ml_[k].nS + ml_[k].nSIX + ml_[k].nX) > 0;
        Fail("C02", Fmt("no-progress:%s:%s", phase, any_holder ? "idle-threads-hold-grants" : "model-holds-no-grant"),
             Fmt("no pending operation completed for %" PRIu64 " s although the client program cannot deadlock by itself (one grant per "
                 "lock and thread, locks taken in index order, released in reverse order); %s; model/raw lock words: %s",
                 g_scfg.hang_s, st.c_str(), holders.c_str()));
        return false;
      }
      if (el > 50000) sched_yield();
    }
  }

  // one random program; returns false if the process must stop (hang)
  bool
  RunProgram(uint64_t pno)
  {
    trace_.clear();
    failed_ = false;
    nthreads_ = 2 + static_cast<int>(r_.Below(kVT - 1));
    nlocks_ = 1 + static_cast<int>(r_.Below(kLocksE1));
    const int steps = g_scfg.steps + static_cast<int>(r_.Below(g_scfg.steps));
    int issued = 0;
    int guard = 0;
    while (issued < steps && !failed_ && guard++ < steps * 20) {
      Poll();
      std::vector<int> idle;
      for (int t = 0; t < nthreads_; ++t) {
        if (!pend_[t].active) idle.push_back(t);
      }
      if (idle.empty()) {
        if (!WaitAnyCompletion("all-threads-blocked")) return false;
        continue;
      }
      const int t = idle[r_.Below(idle.size())];
      Cmd c;
      if (!Generate(t, c, false)) continue;
      if (!Issue(t, c)) return false;
      ++issued;
    }
    // drain: release everything (highest lock first), wait for all pending operations
    int rounds = 0;
    while (!failed_) {
      Poll();
      bool any_pending = false, issued_any = false;
      for (int t = 0; t < nthreads_; ++t) {
        if (pend_[t].active) {
          any_pending = true;
          continue;
        }
        Cmd c;
        if (Generate(t, c, true)) {
          if (!Issue(t, c)) return false;
          issued_any = true;
        }
      }
      if (!issued_any) {
        if (!any_pending) break;
        if (!WaitAnyCompletion("drain")) return false;
      }
      if (++rounds > 10000) break;
    }
    if (failed_) return ResetAfterFailure();
    // quiescent: every lock must be free again
    for (int k = 0; k < kLocksE1; ++k) {
      if (ml_[k].nS + ml_[k].nSIX + ml_[k].nX != 0) Violate("HARNESS", "model-not-empty-after-drain", trace_);
      Cmd c;
      c.op = kLock;
      c.a = kX;
      c.k = k;
      c.b = 0;
      const int t = static_cast<int>(r_.Below(nthreads_));
      trace_ += " | [probe]";
      if (!Issue(t, c)) return false;
      if (pend_[t].active && !WaitAnyCompletion("fresh-LockX-after-last-guard-gone")) return false;
      if constexpr (T::kOpt) {
        const auto got = boxes_[t].res.xver[0];
        if (got != ml_[k].Cur()) {
          Fail("C09", "version-after-program-differs-from-model",
               Fmt("lock %d: a fresh X grant reports version %u, the model (last published version) says %u", k, got, ml_[k].Cur()));
        }
      }
      Cmd rel;
      rel.op = kReset;
      rel.a = kKX;
      rel.b = 0;
      if (!Issue(t, rel)) return false;
      if (pend_[t].active && !WaitAnyCompletion("release-of-probe")) return false;
    }
    if (failed_) return ResetAfterFailure();
    if (res_.samples.size() < 3 && pno % 7 == 0) res_.samples.push_back("\"" + JEsc(Fmt("%s program: %s", T::kName, trace_.c_str()).substr(0, 1200)) + "\"");
    return true;
  }

  // After a reported violation the lock objects may be in an arbitrary state: stop using this process.
  bool
  ResetAfterFailure()
  {
    return false;
  }

  bool
  Issue(int t, const Cmd &c)
  {
    const auto now = Tick();
    trace_ += Fmt(" | %s", CmdStr(t, c).c_str());
    sigs_.insert(Fmt("%s:op:%s:%s", T::kName, kOpKNames[c.op], OpStateClass(t, c).c_str()));
    PreIssue(t, c, now);
    pend_[t].cmd = c;
    pend_[t].issued = now;
    Post(t, c);
    const bool is_mcs_lock = T::kMcs && c.op == kLock;
    if (WaitGrace(t, is_mcs_lock)) {
      const auto res = boxes_[t].res;
      boxes_[t].state.store(0, kMo);
      Complete(t, c, res, now, true);
      g_ops_done.fetch_add(1, kRlx);
      return true;
    }
    if (is_mcs_lock && boxes_[t].arrived.load(kMo) == 0 && !Done(t)) {
      Fail("C02", "Lock-neither-returned-nor-announced-itself",
           Fmt("'%s' has neither returned nor modified the lock word for %" PRIu64 " s", CmdStr(t, c).c_str(), g_scfg.hang_s));
      return false;
    }
    pend_[t].active = true;
    opcount_["operations-left-pending"]++;
    return true;
  }

  std::string
  OpStateClass(int t, const Cmd &c)
  {
    auto own = [&](int kind, int slot) { return ms_[t][kind][slot].own ? "owning" : "empty"; };
    auto lk = [&](int k) {
      auto &l = ml_[k];
      return l.nX ? "X" : (l.nSIX && l.nS ? "S+SIX" : (l.nSIX ? "SIX" : (l.nS ? "S" : "free")));
    };
    switch (c.op) {
      case kLock: return Fmt("%s:lock=%s", ModeName(c.a), lk(c.k));
      case kReset:
      case kDtor: return Fmt("%s:%s", kKindNames[c.a], own(c.a, c.b));
      case kMoveCtor:
      case kMoveAssign: return Fmt("%s:src=%s:dst=%s%s", kKindNames[c.a], own(c.a, c.b), own(c.a, c.c), c.b == c.c ? ":self" : "");
      case kUpgrade: return Fmt("src=%s:lock=%s", own(kKSIX, c.b), ms_[t][kKSIX][c.b].own ? lk(ms_[t][kKSIX][c.b].lock) : "-");
      case kDowngrade: return Fmt("src=%s", own(kKX, c.b));
      case kGetVer: return Fmt("lock=%s", lk(c.k));
      case kVerify: return Fmt("lock=%s:%s", lk(ms_[t][kKOG][c.b].lock), ms_[t][kKOG][c.b].ver == ml_[ms_[t][kKOG][c.b].lock].Cur() ? "current" : "stale");
      case kTryLock: return Fmt("%s:lock=%s:%s", ModeName(c.a), lk(ms_[t][kKOG][c.b].lock), ms_[t][kKOG][c.b].ver == ml_[ms_[t][kKOG][c.b].lock].Cur() ? "current" : "stale");
      case kPrepare: return Fmt("lock=%s", lk(c.k));
      case kCgVerify: return Fmt("%s", own(kKCG, c.b));
      case kSetVer: return c.v == 0xFFFFFFFFU ? "max" : (c.v == 0 ? "zero" : (c.v == ms_[t][kKX][c.b].old_ver ? "republish" : "other"));
      default: return "-";
    }
  }

  int
  Main()
  {
    g_cls_name = T::kName;
    g_point_cb = &SeqPointCb;
#if !VERIF_ASAN && !VERIF_TSAN
    {
      struct sigaction sa {};
      sa.sa_sigaction = &SeqCrashHandler;
      sa.sa_flags = SA_SIGINFO;
      sigaction(SIGSEGV, &sa, nullptr);
      sigaction(SIGBUS, &sa, nullptr);
      sigaction(SIGABRT, &sa, nullptr);
    }
#endif
    r_.Seed(g_scfg.seed * 2654435761ULL + 99);
    {
      using namespace ::dbgroup::verif;
      std::vector<int> cand;
      if constexpr (T::kMcs) {
        cand = {kMcsSBeforeCas, kMcsXFlagsStored, kMcsXLinked, kMcsUnlockTailPath, kMcsUnlockWaitLink, kMcsUnlockHandOff, kMcsConvTailPath, kMcsConvHandOff};
      } else if constexpr (T::kOpt) {
        cand = {kAdmitS, kAdmitSIX, kAdmitX, kAdmitUpgrade, kAdmitTryS, kAdmitTrySIX, kAdmitTryX, kPrepareOptimistic, kPrepareFallback, kVerifyLoaded, kGetVersionLoaded};
      } else {
        cand = {kAdmitS, kAdmitSIX, kAdmitX, kAdmitUpgrade};
      }
      MakePlan(r_, cand, g_scfg.chaos);
      g_plan.th_yield = 120;
      g_plan.th_spin = 250;
      g_plan.th_sleep = 256;  // no long sleeps: the controller's grace period must stay meaningful
      g_plan.sleep_max_ns = 200000;
    }
    for (int k = 0; k < kLocksE1; ++k) ml_[k].vers.push_back({0, 0, 0});
    for (int t = 0; t < kVT; ++t) {
      vts_[t] = std::make_unique<VT>();
      g_boxes_by_tid[t] = &boxes_[t];
      ths_[t] = std::thread([this, t] { ThreadMain(t); });
    }
    const auto t0 = NowNs();
    uint64_t done_programs = 0;
    bool stopped = false;
    for (uint64_t p = 0; p < g_scfg.programs; ++p) {
      if (!RunProgram(p)) {
        stopped = true;
        break;
      }
      ++done_programs;
    }
    res_.Add("programs", done_programs);
    uint64_t ops = 0;
    for (auto &[k, v] : opcount_) {
      res_.Add("op_" + k, v);
      if (k != "operations-left-pending") ops += v;
    }
    res_.counters["evaluations"] = ops;
    res_.Add("ops_total", ops);
    res_.Add("wall_ms", (NowNs() - t0) / 1000000);
    for (auto &s : sigs_) res_.signatures.push_back(s);
    res_.strings["cls"] = T::kName;
    if constexpr (T::kMcs) ReportNodeStateViolations();
    if (stopped) {
      // a violation (or hang) was reported; threads may be stuck inside the library
      EmitResult(res_, g_log.n_viol.load() ? "violation" : "stopped");
      fflush(stdout);
      _exit(0);
    }
    for (int t = 0; t < kVT; ++t) {
      Cmd c;
      c.op = kExit;
      Post(t, c);
    }
    for (auto &th : ths_) th.join();
    if constexpr (T::kMcs) {
      const auto live = g_nodes_live.load();
      res_.Add("mcs_nodes_allocated", g_nodes_allocated.load());
      if (live != 0) {
        Violate("C12", "mcs:queue-nodes-still-allocated-after-all-threads-exited",
                Fmt("lock_seq: %" PRId64 " of %" PRIu64 " queue nodes were never freed after all virtual threads exited", live, g_nodes_allocated.load()));
      }
    }
    const int n = std::min(g_san_n.load(), kMaxSan);
    for (int i = 0; i < n; ++i) {
      if (g_san[i].kind == 3) {
        Violate("C12", "mcs:queue-node-accessed-after-free-or-recycling", Fmt("ASan report on queue node address %" PRIx64, g_san[i].addr));
      } else if (g_san[i].kind == 4) {
        Observe("asan-report-outside-queue-nodes", Fmt("addr=%" PRIx64, g_san[i].addr));
      }
    }
    EmitResult(res_, "ok");
    return 0;
  }
};

}  // namespace vf

int
main(int argc, char **argv)
{
  using namespace vf;
  Args a{argc, argv};
  g_scfg.cls = a.S("cls", "pess");
  g_scfg.seed = a.U("seed", 1);
  g_scfg.programs = a.U("programs", 200);
  g_scfg.steps = static_cast<int>(a.U("steps", 14));
  g_scfg.chaos = static_cast<int>(a.U("chaos", 1));
  g_scfg.hang_s = a.U("hang_s", 15);
  g_scfg.grace_us = a.U("grace_us", 3000);
  if (g_scfg.cls == "pess") {
    static Controller<Pess> c;
    return c.Main();
  }
  if (g_scfg.cls == "opt") {
    static Controller<Opt> c;
    return c.Main();
  }
  if (g_scfg.cls == "mcs") {
    static Controller<Mcs> c;
    return c.Main();
  }
  return 2;
}
