// Ghost monitors for the three lock classes (shared by the stress engine E2 and
// the controlled engine E1).  Every ghost fact is recorded strictly inside the
// real interval it witnesses (see DESIGN.md, "interval discipline"), so a
// contradiction between ghost facts is a contradiction of the real execution.
#ifndef VERIF_LOCKMON_HPP_
#define VERIF_LOCKMON_HPP_

#include <new>
#include <type_traits>
#include <utility>

#include "../common/vcommon.hpp"
#include "dbgroup/lock/mcs_lock.hpp"
#include "dbgroup/lock/optimistic_lock.hpp"
#include "dbgroup/lock/pessimistic_lock.hpp"

#if VERIF_ASAN
#include <sanitizer/asan_interface.h>
#endif

namespace vf
{
using Pess = ::dbgroup::lock::PessimisticLock;
using Opt = ::dbgroup::lock::OptimisticLock;
using Mcs = ::dbgroup::lock::MCSLock;

template <class L>
struct Traits;
template <>
struct Traits<Pess> {
  static constexpr bool kOpt = false;
  static constexpr bool kMcs = false;
  static constexpr const char *kName = "pess";
};
template <>
struct Traits<Opt> {
  static constexpr bool kOpt = true;
  static constexpr bool kMcs = false;
  static constexpr const char *kName = "opt";
};
template <>
struct Traits<Mcs> {
  static constexpr bool kOpt = false;
  static constexpr bool kMcs = true;
  static constexpr const char *kName = "mcs";
};

enum Mode : int { kS = 0, kSIX = 1, kX = 2 };
inline const char *
ModeName(int m)
{
  return m == kS ? "S" : (m == kSIX ? "SIX" : "X");
}
inline bool
Conflict(int a, int b)
{
  return !(a == kS && b == kS) && !(a == kS && b == kSIX) && !(a == kSIX && b == kS);
}

constexpr int kMaxThreads = 32;
constexpr int kMaxLocks = 3;
constexpr int kPayWords = 8;
constexpr uint64_t kPubRing = 1 << 12;

// ghost word layout
constexpr uint64_t kGS = 1ULL;          // bits 0-11   shared holders
constexpr uint64_t kGSIX = 1ULL << 12;  // bits 12-23  SIX holders
constexpr uint64_t kGX = 1ULL << 24;    // bits 24-35  X holders
constexpr uint64_t kGU = 1ULL << 36;    // bits 36-41  SIX holders currently inside UpgradeToX
constexpr uint64_t kGD = 1ULL << 42;    // bits 42-47  (former X) holders currently inside DowngradeToSIX
constexpr uint64_t kGC = 1ULL << 48;    // bits 48-59  holders whose current grant was obtained by a conversion
inline uint64_t
GUnit(int m)
{
  return m == kS ? kGS : (m == kSIX ? kGSIX : kGX);
}
inline unsigned
GS(uint64_t g)
{
  return g & 0xFFF;
}
inline unsigned
GSIX(uint64_t g)
{
  return (g >> 12) & 0xFFF;
}
inline unsigned
GX(uint64_t g)
{
  return (g >> 24) & 0xFFF;
}
inline unsigned
GU(uint64_t g)
{
  return (g >> 36) & 0x3F;
}
inline unsigned
GD(uint64_t g)
{
  return (g >> 42) & 0x3F;
}
inline unsigned
GC(uint64_t g)
{
  return (g >> 48) & 0xFFF;
}
inline std::string
GStr(uint64_t g)
{
  return Fmt("{S:%u,SIX:%u,X:%u,inUpgrade:%u,inDowngrade:%u,heldViaConversion:%u}", GS(g), GSIX(g), GX(g), GU(g),
             GD(g), GC(g));
}

/*------------------------------------------------------------------------------
 * payload: plain memory in TSan builds (so that TSan judges the lock's
 * happens-before), relaxed atomics elsewhere (so that an exclusion failure is a
 * monitor finding, not UB in the monitor).
 *----------------------------------------------------------------------------*/
#if VERIF_TSAN
using PayWord = uint64_t;
inline uint64_t
PayRead(const PayWord &w)
{
  return w;
}
inline void
PayWrite(PayWord &w, uint64_t v)
{
  w = v;
}
#else
using PayWord = std::atomic<uint64_t>;
inline uint64_t
PayRead(const PayWord &w)
{
  return w.load(kRlx);
}
inline void
PayWrite(PayWord &w, uint64_t v)
{
  w.store(v, kRlx);
}
#endif

template <class L>
struct alignas(64) LockBox {
  alignas(64) L lock{};
  alignas(64) std::atomic<uint64_t> ghost{0};
  alignas(64) PayWord pay[kPayWords]{};
  alignas(64) std::atomic<uint64_t> opay[kPayWords]{};
  alignas(64) std::atomic<uint64_t> x_begun{0};
  std::atomic<uint64_t> x_done{0};
  std::atomic<uint64_t> x_rel{0};
  std::atomic<uint32_t> ghost_ver{0};
  std::atomic<uint64_t> pub[kPubRing]{};  // (section idx << 32) | published version
  alignas(64) std::atomic<uint64_t> grant_id[kMaxThreads]{};
  alignas(64) std::atomic<uint64_t> pend[kMaxThreads]{};  // (arrival tick << 8) | mode << 1 | 1
  int index{0};
};

/*------------------------------------------------------------------------------
 * statistics (per thread, merged at the end)
 *----------------------------------------------------------------------------*/
struct MonStats {
  std::map<std::string, uint64_t> c;
  void
  Add(const char *k, uint64_t v = 1)
  {
    c[k] += v;
  }
};

struct MonTls {
  int tid{-1};
  uint64_t grant_seq{0};
  // C11: current pending slot
  std::atomic<uint64_t> *pend_slot{nullptr};
  const void *pend_lock{nullptr};
  int pend_mode{0};
  MonStats *stats{nullptr};
  uint64_t sigs[64]{};  // signature bitsets: [api*4+mode] -> bits over ghost-state class
};
extern thread_local MonTls t_mon;

inline const char *g_cls_name = "?";

// ghost-state class for coverage signatures: 0 free,1 S only,2 SIX only,3 S+SIX,4 X,(5 other)
inline int
GClass(uint64_t g)
{
  if (GX(g)) return 4;
  if (GSIX(g) && GS(g)) return 3;
  if (GSIX(g)) return 2;
  if (GS(g)) return 1;
  return 0;
}

/*------------------------------------------------------------------------------
 * registration of grants (interval discipline)
 *----------------------------------------------------------------------------*/
// api ids for signatures
enum Api : int {
  kApiLock = 0,
  kApiTry = 1,
  kApiPrepare = 2,
  kApiUpgrade = 3,
  kApiDowngrade = 4,
};
inline const char *
ApiName(int a)
{
  static const char *n[] = {"Lock", "TryLock", "PrepareRead", "UpgradeToX", "DowngradeToSIX"};
  return n[a];
}

template <class L>
inline void
RegGrant(LockBox<L> &b, int mode, int api)
{
  const auto prev = b.ghost.fetch_add(GUnit(mode), kMo);
  auto &t = t_mon;
  b.grant_id[t.tid].store((static_cast<uint64_t>(t.tid + 1) << 40) | ++t.grant_seq, kMo);
  t.sigs[(api * 4 + mode) & 63] |= 1ULL << GClass(prev);
  if (t.stats) {
    if (GClass(prev) != 0) t.stats->Add("grants_sharing_with_other_holders");
  }
  bool bad = false;
  const char *prop = "C01";
  if (GX(prev) > 0) {
    bad = true;
  } else if (mode != kS && GSIX(prev) > 0) {
    bad = true;
    if (GU(prev) > 0 || GD(prev) > 0) prop = "C10";
  } else if (mode == kX && GS(prev) > 0) {
    bad = true;
  }
  if (bad && mode != kS && GC(prev) > 0 && strcmp(prop, "C10") != 0) {
    // the conflicting holder obtained its current grant through UpgradeToX / DowngradeToSIX: C10 promises that no
    // other thread obtains SIX or X until that grant ends
    Violate("C10", Fmt("%s:%s-granted-%s-while-converted-grant-held", g_cls_name, ApiName(api), ModeName(mode)),
            Fmt("class=%s lock=%d thread=%d obtained %s via %s while another thread still holds the grant it obtained "
                "through UpgradeToX/DowngradeToSIX; ghost registry %s",
                g_cls_name, b.index, t.tid, ModeName(mode), ApiName(api), GStr(prev).c_str()));
  }
  if (bad) {
    Violate(prop,
            Fmt("%s:%s-granted-%s-while-conflicting-grant-held", g_cls_name, ApiName(api),
                ModeName(mode)),
            Fmt("class=%s lock=%d thread=%d obtained %s via %s although the ghost registry "
                "(grants registered after their acquiring call returned, removed before their "
                "releasing call) showed %s",
                g_cls_name, b.index, t.tid, ModeName(mode), ApiName(api), GStr(prev).c_str()));
  }
}

template <class L>
inline void
UnregGrant(LockBox<L> &b, int mode, bool converted = false)
{
  b.grant_id[t_mon.tid].store(0, kMo);
  b.ghost.fetch_sub(GUnit(mode) + (converted ? kGC : 0), kMo);
}

// SIX -> X: call BeginUpgrade before UpgradeToX(), EndUpgrade after it returned an owning guard
template <class L>
inline void
BeginUpgrade(LockBox<L> &b)
{
  b.ghost.fetch_add(kGU, kMo);
}
template <class L>
inline void
EndUpgrade(LockBox<L> &b, bool was_converted = false)
{
  const auto prev = b.ghost.fetch_add(kGX - kGSIX - kGU + (was_converted ? 0 : kGC), kMo);
  auto &t = t_mon;
  t.sigs[(kApiUpgrade * 4 + kX) & 63] |= 1ULL << GClass(prev);
  if (GS(prev) > 0 || GX(prev) > 0 || GSIX(prev) != 1) {
    Violate("C10", Fmt("%s:UpgradeToX-returned-while-other-grants-held", g_cls_name),
            Fmt("class=%s lock=%d thread=%d UpgradeToX returned an owning guard although the "
                "ghost registry showed %s (own SIX included)",
                g_cls_name, b.index, t.tid, GStr(prev).c_str()));
  }
}
// X -> SIX: call BeginDowngrade before DowngradeToSIX(), EndDowngrade after it returned
template <class L>
inline void
BeginDowngrade(LockBox<L> &b, bool was_converted = false)
{
  b.ghost.fetch_add(kGSIX + kGD - kGX + (was_converted ? 0 : kGC), kMo);
}
template <class L>
inline void
EndDowngrade(LockBox<L> &b)
{
  b.ghost.fetch_sub(kGD, kMo);
}

/*------------------------------------------------------------------------------
 * payload checks
 *----------------------------------------------------------------------------*/
template <class L>
inline uint64_t
ReadPayloadConsistent(LockBox<L> &b, int mode, const char *what)
{
  uint64_t v[kPayWords];
  for (int i = 0; i < kPayWords; ++i) v[i] = PayRead(b.pay[i]);
  for (int i = 1; i < kPayWords; ++i) {
    if (v[i] != v[0]) {
      Violate("C01", Fmt("%s:half-updated-payload-under-%s", g_cls_name, ModeName(mode)),
              Fmt("class=%s lock=%d thread=%d %s read payload words %" PRIu64 ",%" PRIu64
                  ",%" PRIu64 ",%" PRIu64 ",%" PRIu64 ",%" PRIu64 ",%" PRIu64 ",%" PRIu64
                  " under a %s grant (written only under X, all words equal outside X sections)",
                  g_cls_name, b.index, t_mon.tid, what, v[0], v[1], v[2], v[3], v[4], v[5], v[6],
                  v[7], ModeName(mode)));
      break;
    }
  }
  return v[0];
}

/*------------------------------------------------------------------------------
 * X-section bookkeeping (sandwich counters, ghost version)
 *----------------------------------------------------------------------------*/
template <class L>
inline uint64_t
XBegin(LockBox<L> &b)
{
  return b.x_begun.fetch_add(1, kMo) + 1;
}
template <class L>
inline void
XDone(LockBox<L> &b, uint64_t idx, uint32_t new_ver)
{
  b.ghost_ver.store(new_ver, kMo);
  b.pub[idx % kPubRing].store((idx << 32) | new_ver, kMo);
  b.x_done.fetch_add(1, kMo);
}
template <class L>
inline void
XReleased(LockBox<L> &b)
{
  b.x_rel.fetch_add(1, kMo);
}

}  // namespace vf

#endif  // VERIF_LOCKMON_HPP_
