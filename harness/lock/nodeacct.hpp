// Allocation accounting for MCS queue nodes (operator new/delete interposition)
// and sanitizer report classification.  Included by exactly one TU.
#ifndef VERIF_NODEACCT_HPP_
#define VERIF_NODEACCT_HPP_

#include <cstdlib>
#include <new>

#include "lockmon.hpp"

namespace vf
{
// Open-addressing set of live allocations made while the calling thread was inside a lock
// operation (tl_track != 0).  Lock-free; values are addresses, 0 = empty, 1 = tombstone.
constexpr uint64_t kNodeTab = 1ULL << 18;
inline std::atomic<uint64_t> g_node_tab[kNodeTab];
inline std::atomic<int64_t> g_nodes_live{0};
inline std::atomic<uint64_t> g_nodes_allocated{0};
inline std::atomic<uint64_t> g_nodes_freed{0};
inline std::atomic<uint64_t> g_nodes_peak{0};
inline std::atomic<bool> g_node_overflow{false};
inline thread_local int tl_track = 0;

inline uint64_t
NodeHash(uint64_t a)
{
  a ^= a >> 33;
  a *= 0xff51afd7ed558ccdULL;
  a ^= a >> 29;
  return a & (kNodeTab - 1);
}

inline void
NodeInsert(void *p)
{
  const auto a = reinterpret_cast<uint64_t>(p);
  auto h = NodeHash(a);
  for (uint64_t i = 0; i < kNodeTab; ++i, h = (h + 1) & (kNodeTab - 1)) {
    auto cur = g_node_tab[h].load(kRlx);
    if (cur <= 1) {
      if (g_node_tab[h].compare_exchange_strong(cur, a, kRlx)) {
        const auto live = static_cast<uint64_t>(g_nodes_live.fetch_add(1, kRlx) + 1);
        g_nodes_allocated.fetch_add(1, kRlx);
        auto peak = g_nodes_peak.load(kRlx);
        while (live > peak && !g_nodes_peak.compare_exchange_weak(peak, live, kRlx)) {
        }
        return;
      }
    }
  }
  g_node_overflow.store(true, kRlx);
}

inline bool
NodeRemove(void *p)
{
  const auto a = reinterpret_cast<uint64_t>(p);
  auto h = NodeHash(a);
  for (uint64_t i = 0; i < kNodeTab; ++i, h = (h + 1) & (kNodeTab - 1)) {
    auto cur = g_node_tab[h].load(kRlx);
    if (cur == 0) return false;
    if (cur == a) {
      g_node_tab[h].store(1, kRlx);
      g_nodes_live.fetch_sub(1, kRlx);
      g_nodes_freed.fetch_add(1, kRlx);
      return true;
    }
  }
  return false;
}

// Every address that has ever been a queue node (for classifying ASan reports), with the node's life-cycle state
// as seen at the hook points: 0 free/unknown, 1 taken (in use by a request), 2 cached (handed back for reuse).
constexpr uint64_t kEverTab = 1ULL << 16;
inline std::atomic<uint64_t> g_ever_tab[kEverTab];
inline std::atomic<uint32_t> g_ever_state[kEverTab];
inline std::atomic<uint64_t> g_node_state_violations[3];  // [1] taken while in use, [2] handed back twice
inline std::atomic<uint64_t> g_node_state_sample[3];
inline int64_t
EverInsert(const void *p)
{
  const auto a = reinterpret_cast<uint64_t>(p);
  auto h = NodeHash(a) & (kEverTab - 1);
  for (uint64_t i = 0; i < kEverTab; ++i, h = (h + 1) & (kEverTab - 1)) {
    auto cur = g_ever_tab[h].load(kRlx);
    if (cur == a) return static_cast<int64_t>(h);
    if (cur == 0 && g_ever_tab[h].compare_exchange_strong(cur, a, kRlx)) return static_cast<int64_t>(h);
    if (cur == a) return static_cast<int64_t>(h);
  }
  return -1;
}
inline int64_t
EverFind(uint64_t addr)
{
  const auto a = addr & ~7ULL;
  auto h = NodeHash(a) & (kEverTab - 1);
  for (uint64_t i = 0; i < kEverTab; ++i, h = (h + 1) & (kEverTab - 1)) {
    auto cur = g_ever_tab[h].load(kRlx);
    if (cur == a) return static_cast<int64_t>(h);
    if (cur == 0) return -1;
  }
  return -1;
}
inline bool
EverContains(uint64_t addr)
{
  return EverFind(addr) >= 0;
}
// hook events
inline void
NodeStateTaken(const void *p)
{
  const auto i = EverInsert(p);
  if (i < 0) return;
  const auto prev = g_ever_state[i].exchange(1, kRlx);
  if (prev == 1) {
    g_node_state_violations[1].fetch_add(1, kRlx);
    g_node_state_sample[1].store(reinterpret_cast<uint64_t>(p), kRlx);
  }
}
inline void
NodeStateRecycled(const void *p)
{
  const auto i = EverInsert(p);
  if (i < 0) return;
  const auto prev = g_ever_state[i].exchange(2, kRlx);
  if (prev == 2) {
    g_node_state_violations[2].fetch_add(1, kRlx);
    g_node_state_sample[2].store(reinterpret_cast<uint64_t>(p), kRlx);
  }
}
inline void
NodeStateFreed(const void *p)
{
  const auto i = EverFind(reinterpret_cast<uint64_t>(p));
  if (i >= 0) g_ever_state[i].store(0, kRlx);
}

// turn the recorded life-cycle violations into C12 findings (called at the end of a run)
inline void
ReportNodeStateViolations()
{
  if (g_node_state_violations[1].load() != 0) {
    Violate("C12", "mcs:queue-node-taken-for-a-new-request-while-still-in-use",
            Fmt("%" PRIu64 " time(s) a lock operation took a queue node (e.g. %" PRIx64 ") from a thread's cache although the node was "
                "still in use by another request (it had been handed back for reuse while still referenced, or handed back twice)",
                g_node_state_violations[1].load(), g_node_state_sample[1].load()));
  }
  if (g_node_state_violations[2].load() != 0) {
    Violate("C12", "mcs:queue-node-handed-back-for-reuse-twice",
            Fmt("%" PRIu64 " time(s) a queue node (e.g. %" PRIx64 ") was handed back for reuse although it was already sitting in a "
                "thread's cache (two releasers both concluded that they were the last user)",
                g_node_state_violations[2].load(), g_node_state_sample[2].load()));
  }
}

/*------------------------------------------------------------------------------
 * sanitizer report records (POD, lock-free: the callbacks run inside the runtime)
 *----------------------------------------------------------------------------*/
struct SanRecord {
  uint64_t addr;
  int kind;  // 1 payload race (TSan), 2 other race (TSan), 3 node fault (ASan), 4 other (ASan)
  int op;    // current op of the reporting thread
  int tid;
  int lock_index;
  int word;
  int write;
};
constexpr int kMaxSan = 256;
inline SanRecord g_san[kMaxSan];
inline std::atomic<int> g_san_n{0};
inline std::atomic<uint64_t> g_san_total[5];

inline void
SanRecordAdd(const SanRecord &r)
{
  g_san_total[r.kind].fetch_add(1, kRlx);
  const int i = g_san_n.fetch_add(1, kRlx);
  if (i < kMaxSan) g_san[i] = r;
}

// payload address ranges, registered by the engine
struct PayRange {
  uint64_t lo, hi;
  int lock_index;
};
inline PayRange g_pay_ranges[8];
inline int g_pay_range_n = 0;

}  // namespace vf

#if !VERIF_TSAN  // (the TSan runtimes bring their own operator new; node accounting is not needed there)
/*##############################################################################
 * operator new / delete interposition
 *############################################################################*/
void *
operator new(std::size_t n)
{
  void *p = malloc(n ? n : 1);
  if (p == nullptr) abort();
  if (vf::tl_track != 0 && n == sizeof(vf::Mcs)) vf::NodeInsert(p);
  return p;
}
void *
operator new[](std::size_t n)
{
  void *p = malloc(n ? n : 1);
  if (p == nullptr) abort();
  return p;
}
void
operator delete(void *p) noexcept
{
  if (p == nullptr) return;
  if (vf::g_nodes_live.load(vf::kRlx) > 0 && vf::NodeRemove(p)) vf::NodeStateFreed(p);
  free(p);
}
void
operator delete(void *p, std::size_t) noexcept
{
  if (p == nullptr) return;
  if (vf::g_nodes_live.load(vf::kRlx) > 0 && vf::NodeRemove(p)) vf::NodeStateFreed(p);
  free(p);
}
void
operator delete[](void *p) noexcept
{
  free(p);
}
void
operator delete[](void *p, std::size_t) noexcept
{
  free(p);
}

#endif  // !VERIF_TSAN

/*##############################################################################
 * TSan glue
 *############################################################################*/
#if VERIF_TSAN && !defined(VERIF_NO_TSAN_CALLBACK)
extern "C" {
int __tsan_get_report_data(void *report, const char **description, int *count, int *stack_count,
                           int *mop_count, int *loc_count, int *mutex_count, int *thread_count,
                           int *unique_tid_count, void **sleep_trace, unsigned long trace_size);
int __tsan_get_report_mop(void *report, unsigned long idx, int *tid, void **addr, int *size,
                          int *write, int *atomic, void **trace, unsigned long trace_size);
void
__tsan_on_report(void *report)
{
  const char *desc = nullptr;
  int count = 0, stack_count = 0, mop_count = 0, loc_count = 0, mutex_count = 0, thread_count = 0,
      utid = 0;
  void *sleep_trace[1] = {nullptr};
  __tsan_get_report_data(report, &desc, &count, &stack_count, &mop_count, &loc_count,
                         &mutex_count, &thread_count, &utid, sleep_trace, 1);
  vf::SanRecord r{};
  r.kind = 2;
  r.op = vf::t_chaos.cur_op;
  r.tid = vf::t_chaos.tid;
  r.lock_index = -1;
  for (int i = 0; i < mop_count; ++i) {
    int tid = 0, size = 0, write = 0, atomic = 0;
    void *addr = nullptr;
    void *trace[1] = {nullptr};
    __tsan_get_report_mop(report, i, &tid, &addr, &size, &write, &atomic, trace, 1);
    const auto a = reinterpret_cast<uint64_t>(addr);
    if (i == 0) {
      r.addr = a;
      r.write = write;
    }
    for (int k = 0; k < vf::g_pay_range_n; ++k) {
      if (a >= vf::g_pay_ranges[k].lo && a < vf::g_pay_ranges[k].hi) {
        r.kind = 1;
        r.addr = a;
        r.lock_index = vf::g_pay_ranges[k].lock_index;
        r.word = static_cast<int>((a - vf::g_pay_ranges[k].lo) / 8);
        if (i == 0) r.write = write;
      }
    }
  }
  vf::SanRecordAdd(r);
}
}
#endif

/*##############################################################################
 * ASan glue
 *############################################################################*/
#if VERIF_ASAN
extern "C" {
void *__asan_get_report_address(void);
int __asan_get_report_access_type(void);
void
__asan_on_error(void)
{
  const auto a = reinterpret_cast<uint64_t>(__asan_get_report_address());
  vf::SanRecord r{};
  r.addr = a;
  r.kind = vf::EverContains(a) ? 3 : 4;
  r.op = vf::t_chaos.cur_op;
  r.tid = vf::t_chaos.tid;
  r.write = __asan_get_report_access_type();
  vf::SanRecordAdd(r);
}
}
#endif

#endif  // VERIF_NODEACCT_HPP_
