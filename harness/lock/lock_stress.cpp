// E2: concurrent chaos workloads on PessimisticLock / OptimisticLock / MCSLock
// with ghost monitors.  One process = one short run; the driver starts many.
//
// usage: lock_stress cls=pess|opt|mcs threads=N locks=K ops=M seed=S profile=NAME
//        chaos=0..3 hold=NS hang_s=SEC
#define VERIF_MAIN_TU
#include <pthread.h>
#include <signal.h>

#include <algorithm>
#include <thread>

#include "nodeacct.hpp"

namespace vf
{
thread_local MonTls t_mon{};

/*------------------------------------------------------------------------------
 * operation kinds
 *----------------------------------------------------------------------------*/
enum Op : int {
  kOpS = 0,
  kOpSIX,
  kOpX,
  kOpSixUp,      // LockSIX -> UpgradeToX
  kOpXDown,      // LockX -> DowngradeToSIX
  kOpChain,      // X -> SIX -> X (-> SIX)
  kOpOptRead,    // GetVersion .. VerifyVersion
  kOpTryS,       // GetVersion .. TryLockS
  kOpTrySIX,
  kOpTryX,
  kOpPrepare,    // PrepareRead .. VerifyVersion
  kOpNested,     // hold lock i, operate on lock j > i
  kOpCount
};
const char *kOpNames[kOpCount] = {"S",       "SIX",  "X",      "SIX->X", "X->SIX",  "chain",
                                  "optread", "tryS", "trySIX", "tryX",   "prepare", "nested"};

// client-side chaos point ids (disjoint from the library's)
constexpr int kCpInCs = 60;       // inside a critical section, between payload words
constexpr int kCpBetweenOps = 61; // between operations
constexpr int kCpOptRead = 62;    // inside an optimistic read

struct Config {
  std::string cls;
  int threads{8};
  int locks{1};
  uint64_t ops{5000};
  uint64_t seed{1};
  std::string profile{"mixed"};
  int chaos{2};
  uint64_t hold_ns{2000};
  uint64_t hang_s{20};
  bool arbitrary_versions{false};
  bool step{false};  // trap-flag stepper inside library calls
  bool edge{false};  // probe the edge of the shared counter before the workload
  bool coupling{false};  // optimistic lock coupling: verify lock i while holding a grant on lock j > i
  uint32_t weights[kOpCount]{};
};
Config g_cfg;

/*------------------------------------------------------------------------------
 * per-thread progress for the watchdog
 *----------------------------------------------------------------------------*/
struct alignas(64) Progress {
  std::atomic<uint64_t> op_no{0};
  std::atomic<uint32_t> state{0};  // (phase << 16) | (lock index << 8) | op kind; phase 0 = client
  std::atomic<bool> done{false};
};
Progress g_prog[kMaxThreads];
enum Phase : uint32_t { kPhClient = 0, kPhAcquire = 1, kPhRelease = 2, kPhConvert = 3, kPhCheck = 4 };
const char *kPhaseNames[] = {"client", "acquire", "release", "convert", "check"};

inline void
SetPhase(uint32_t phase, int lock_index, int op)
{
  g_prog[t_mon.tid].state.store((phase << 16) | (static_cast<uint32_t>(lock_index) << 8) | op, kRlx);
}

std::atomic<uint64_t> g_stepped_calls{0};
std::atomic<uint64_t> g_edge_probes{0};
struct LibCall {
  bool stepped{false};
  LibCall(uint32_t phase, int lock_index, int op)
  {
    SetPhase(phase, lock_index, op);
    tl_track = 1;
    // instruction stepper: one library call in sixteen is single-stepped and stalled at a random instruction boundary
    // (a preemption where no hook is)
    if (g_cfg.step && t_chaos.enabled && (t_chaos.rng.Next() & 15) == 0) {
      stepped = true;
      g_stepped_calls.fetch_add(1, kRlx);
      StepArm(1 + t_chaos.rng.Below(180), t_chaos.rng.Range(3000, 80000));
    }
  }
  ~LibCall()
  {
    if (stepped) StepDisarm();
    tl_track = 0;
    SetPhase(kPhClient, 0, 0);
  }
};

/*------------------------------------------------------------------------------
 * the engine, per lock class
 *----------------------------------------------------------------------------*/
template <class L>
class Engine
{
 public:
  using T = Traits<L>;
  using Box = LockBox<L>;
  using SG = typename L::SGuard;
  using SIXG = typename L::SIXGuard;
  using XG = typename L::XGuard;

  Box boxes_[kMaxLocks];
  std::atomic<uint64_t> fifo_pairs_{0};
  // the grant currently held by this thread on box index i was obtained through a conversion
  static inline thread_local bool conv_tl_[kMaxLocks] = {};
  static inline thread_local uint64_t own_checks_tl_ = 0;

  /*---------------------------------------------------------------- C11 ------*/
  void
  PendBegin(Box &b, int mode, uint64_t &called)
  {
    if constexpr (T::kMcs) {
      auto &t = t_mon;
      t.pend_slot = &b.pend[t.tid];
      t.pend_lock = &b.lock;
      t.pend_mode = mode;
      t.pend_slot->store((static_cast<uint64_t>(mode) << 1) | 1, kMo);
      called = Tick();
    } else {
      (void)b;
      (void)mode;
      called = 0;
    }
  }

  void
  PendGranted(Box &b, int mode, uint64_t called)
  {
    if constexpr (T::kMcs) {
      auto &t = t_mon;
      const auto my = t.pend_slot->load(kMo);
      t.pend_slot->store(0, kMo);
      t.pend_slot = nullptr;
      t.pend_lock = nullptr;
#if !VERIF_TSAN
      uint64_t comparable = 0;
      for (int u = 0; u < g_cfg.threads; ++u) {
        if (u == t.tid) continue;
        const auto v = b.pend[u].load(kMo);
        if ((v & 1) == 0) continue;
        const auto arrived = v >> 8;
        const int omode = static_cast<int>((v >> 1) & 3);
        if (arrived == 0 || !Conflict(omode, mode)) continue;
        if (arrived < called) {
          Violate("C11", Fmt("mcs:%s-overtook-earlier-%s", ModeName(mode), ModeName(omode)),
                  Fmt("lock=%d thread=%d Lock%s was invoked at ticket %" PRIu64
                      " and has been granted, while thread %d's conflicting Lock%s, which "
                      "announced itself on the lock word at ticket %" PRIu64
                      " (earlier), is still waiting",
                      b.index, t.tid, ModeName(mode), called, u, ModeName(omode), arrived));
        } else {
          ++comparable;
        }
      }
      if ((my >> 8) != 0 && t.stats) t.stats->Add("mcs_requests_with_arrival_stamp");
      if (comparable && t.stats) t.stats->Add("mcs_grants_with_later_conflicting_waiters", 1);
#else
      (void)b;
      (void)mode;
      (void)called;
      (void)my;
#endif
    } else {
      (void)b;
      (void)mode;
      (void)called;
    }
  }

  // number of earlier-arrived conflicting waiters at call time (evidence only)
  unsigned
  QueueDepth(Box &b)
  {
    unsigned n = 0;
    for (int u = 0; u < g_cfg.threads; ++u) n += (b.pend[u].load(kRlx) & 1) ? 1 : 0;
    return n;
  }

  /*---------------------------------------------------------------- helpers --*/
  void
  Hold(Rng &r)
  {
    ClientPoint(kCpInCs);
    if (g_cfg.hold_ns != 0) {
      const auto k = r.Below(16);
      if (k < 8) {
        SpinNs(r.Below(g_cfg.hold_ns + 1));
      } else if (k == 15) {
        SleepNs(r.Range(g_cfg.hold_ns, g_cfg.hold_ns * 20 + 1000));
      }
    }
  }

  // body of an exclusive section: all payload words are advanced one by one
  void
  WritePayload(Box &b, Rng &r)
  {
    const auto v = ReadPayloadConsistent(b, kX, "X holder (before writing)") + 1;
    for (int i = 0; i < kPayWords; ++i) {
      PayWrite(b.pay[i], v);
      b.opay[i].store(v, kRlx);
      if (r.Chance(1, 4)) ClientPoint(kCpInCs);
    }
    if (g_cfg.hold_ns != 0 && r.Chance(1, 4)) SpinNs(r.Below(g_cfg.hold_ns + 1));
  }

  uint32_t
  PickNewVersion(XG &x, Rng &r, uint32_t old)
  {
    if constexpr (T::kOpt) {
      if (g_cfg.arbitrary_versions) {
        if (r.Chance(1, 2)) return old + 1U;
        static const uint32_t kSpecial[] = {0U, 1U, 0x7FFFFFFFU, 0x80000000U, 0xFFFFFFFFU, 0xFFFFFFFEU};
        const uint32_t v = r.Chance(1, 2) ? kSpecial[r.Below(6)] : static_cast<uint32_t>(r.Next());
        x.SetVersion(v);
        return v;
      }
      const auto k = r.Below(8);
      if (k < 5) return old + 1U;
      uint32_t v = old + 1U;
      if (k == 5) {
        v = old + 1U;  // explicit SetVersion with the default value
      } else if (k == 6) {
        v = old + static_cast<uint32_t>(r.Range(2, 1000));
      } else {
        // jump close to the 32-bit boundary if that is still "forward" by < 2^31, else small step
        const uint32_t target = 0xFFFFFFF0U + static_cast<uint32_t>(r.Below(16));
        v = (target - old < 0x7FFFFFFFU && target != old) ? target : old + 3U;
      }
      x.SetVersion(v);
      return v;
    } else {
      (void)x;
      (void)r;
      return old + 1U;
    }
  }

  // called right after an X grant was obtained (LockX / TryLockX / UpgradeToX)
  uint64_t
  XSectionBegin(Box &b, XG &x, uint32_t &old_ver, const char *how)
  {
    const auto idx = XBegin(b);
    old_ver = 0;
    if constexpr (T::kOpt) {
      old_ver = x.GetVersion();
      const auto gv = b.ghost_ver.load(kMo);
      if (old_ver != gv) {
        Violate("C09", Fmt("opt:XGuard-GetVersion-differs-from-last-published:%s", how),
                Fmt("lock=%d thread=%d X grant via %s: XGuard::GetVersion()=%u but the version "
                    "published by the previous exclusive section was %u",
                    b.index, t_mon.tid, how, old_ver, gv));
      }
    } else {
      (void)x;
      (void)how;
    }
    return idx;
  }

  void
  CheckVersionUnderSharedHold(Box &b, const char *mode)
  {
    if constexpr (T::kOpt) {
      const auto gv = b.ghost_ver.load(kMo);
      uint32_t v = 0;
      {
        LibCall lc{kPhCheck, b.index, t_chaos.cur_op};
        auto og = b.lock.GetVersion();
        v = og.GetVersion();
      }
      if (v != gv) {
        Violate("C09", Fmt("opt:version-under-%s-hold-differs-from-last-published", mode),
                Fmt("lock=%d thread=%d while holding %s (no exclusive section can be active) "
                    "GetVersion()=%u but the last exclusive section published %u",
                    b.index, t_mon.tid, mode, v, gv));
      }
      if (t_mon.stats) t_mon.stats->Add("version_checks_under_shared_hold");
    } else {
      (void)b;
      (void)mode;
    }
  }

  template <class G>
  void
  CheckOwn(const G &g, bool expect, const char *what)
  {
    ++own_checks_tl_;
    if (static_cast<bool>(g) != expect) {
      Violate(strstr(what, "CompositeGuard") != nullptr ? "C13" : "C07", Fmt("%s:guard-bool-mismatch:%s", g_cls_name, what),
              Fmt("class=%s thread=%d %s: operator bool()=%d, expected %d", g_cls_name, t_mon.tid,
                  what, static_cast<int>(static_cast<bool>(g)), static_cast<int>(expect)));
    }
  }

  // release a guard in one of several ways (destruction, move-assign of an empty guard,
  // move construction + destruction of the new owner) and check the ownership flags
  template <class G>
  void
  Release(G &g, Rng &r, int lock_index, int op)
  {
    LibCall lc{kPhRelease, lock_index, op};
    const auto k = r.Below(8);
    if (k < 4) {
      g = G{};
      CheckOwn(g, false, "after move-assigning an empty guard");
    } else if (k < 6) {
      {
        G g2{std::move(g)};
        CheckOwn(g, false, "moved-from guard (move constructor)");
        CheckOwn(g2, true, "move-constructed guard");
      }
    } else {
      G g2{};
      g2 = std::move(g);
      CheckOwn(g, false, "moved-from guard (move assignment)");
      CheckOwn(g2, true, "move-assigned guard");
      G g3{std::move(g2)};
      CheckOwn(g2, false, "moved-from guard (move constructor)");
      CheckOwn(g3, true, "move-constructed guard");
    }
  }

  /*---------------------------------------------------------------- grants ---*/
  SG
  AcqS(Box &b, int op)
  {
    uint64_t called = 0;
    PendBegin(b, kS, called);
    SG g;
    {
      LibCall lc{kPhAcquire, b.index, op};
      g = b.lock.LockS();
    }
    RegGrant(b, kS, kApiLock);
    PendGranted(b, kS, called);
    CheckOwn(g, true, "result of LockS");
    return g;
  }
  SIXG
  AcqSIX(Box &b, int op)
  {
    uint64_t called = 0;
    PendBegin(b, kSIX, called);
    SIXG g;
    {
      LibCall lc{kPhAcquire, b.index, op};
      g = b.lock.LockSIX();
    }
    RegGrant(b, kSIX, kApiLock);
    PendGranted(b, kSIX, called);
    CheckOwn(g, true, "result of LockSIX");
    return g;
  }
  XG
  AcqX(Box &b, int op)
  {
    uint64_t called = 0;
    PendBegin(b, kX, called);
    XG g;
    {
      LibCall lc{kPhAcquire, b.index, op};
      g = b.lock.LockX();
    }
    RegGrant(b, kX, kApiLock);
    PendGranted(b, kX, called);
    CheckOwn(g, true, "result of LockX");
    return g;
  }

  /*---------------------------------------------------------------- sections -*/
  void
  SectionS(Box &b, SG &g, Rng &r, int op)
  {
    const auto v0 = ReadPayloadConsistent(b, kS, "S holder");
    CheckVersionUnderSharedHold(b, "S");
    Hold(r);
    const auto v1 = ReadPayloadConsistent(b, kS, "S holder");
    if (v0 != v1) {
      Violate("C01", Fmt("%s:payload-changed-under-S", g_cls_name),
              Fmt("class=%s lock=%d thread=%d payload changed from %" PRIu64 " to %" PRIu64
                  " while an S grant was held",
                  g_cls_name, b.index, t_mon.tid, v0, v1));
    }
    UnregGrant(b, kS);
    Release(g, r, b.index, op);
  }

  void
  SectionSIX(Box &b, SIXG &g, Rng &r, int op)
  {
    const auto v0 = ReadPayloadConsistent(b, kSIX, "SIX holder");
    CheckVersionUnderSharedHold(b, "SIX");
    Hold(r);
    const auto v1 = ReadPayloadConsistent(b, kSIX, "SIX holder");
    if (v0 != v1) {
      Violate("C01", Fmt("%s:payload-changed-under-SIX", g_cls_name),
              Fmt("class=%s lock=%d thread=%d payload changed from %" PRIu64 " to %" PRIu64
                  " while an SIX grant was held",
                  g_cls_name, b.index, t_mon.tid, v0, v1));
    }
    UnregGrant(b, kSIX, conv_tl_[b.index]);
    conv_tl_[b.index] = false;
    Release(g, r, b.index, op);
  }

  // exclusive section that ends by releasing the guard
  void
  SectionX(Box &b, XG &g, Rng &r, int op, const char *how)
  {
    uint32_t old_ver = 0;
    const auto idx = XSectionBegin(b, g, old_ver, how);
    WritePayload(b, r);
    const auto nv = PickNewVersion(g, r, old_ver);
    if constexpr (T::kOpt) {
      if (g.GetVersion() != old_ver) {
        Violate("C09", "opt:XGuard-GetVersion-changed-by-SetVersion",
                Fmt("lock=%d XGuard::GetVersion() changed from %u to %u after SetVersion",
                    b.index, old_ver, g.GetVersion()));
      }
    }
    XDone(b, idx, nv);
    UnregGrant(b, kX, conv_tl_[b.index]);
    conv_tl_[b.index] = false;
    Release(g, r, b.index, op);
    XReleased(b);
  }

  // X -> SIX; returns the SIX guard (registered as SIX)
  SIXG
  Downgrade(Box &b, XG &g, Rng &r, int op, uint64_t idx, uint32_t old_ver, uint64_t &written)
  {
    const auto nv = PickNewVersion(g, r, old_ver);
    written = PayRead(b.pay[0]);
    XDone(b, idx, nv);
    BeginDowngrade(b, conv_tl_[b.index]);
    conv_tl_[b.index] = true;
    SIXG six;
    {
      LibCall lc{kPhConvert, b.index, op};
      six = g.DowngradeToSIX();
    }
    EndDowngrade(b);
    XReleased(b);
    CheckOwn(six, true, "result of DowngradeToSIX");
    CheckOwn(g, false, "XGuard consumed by DowngradeToSIX");
    t_mon.sigs[(kApiDowngrade * 4 + kSIX) & 63] |= 1ULL << GClass(b.ghost.load(kRlx));
    if (t_mon.stats) t_mon.stats->Add("downgrades");
    return six;
  }

  // SIX -> X; returns the X guard (registered as X); checks value stability
  XG
  Upgrade(Box &b, SIXG &g, int op, uint64_t seen_under_six)
  {
    BeginUpgrade(b);
    XG x;
    {
      LibCall lc{kPhConvert, b.index, op};
      x = g.UpgradeToX();
    }
    CheckOwn(x, true, "result of UpgradeToX");
    CheckOwn(g, false, "SIXGuard consumed by UpgradeToX");
    EndUpgrade(b, conv_tl_[b.index]);
    conv_tl_[b.index] = true;
    const auto now = ReadPayloadConsistent(b, kX, "upgraded X holder");
    if (now != seen_under_six) {
      Violate("C10", Fmt("%s:value-read-under-SIX-changed-before-UpgradeToX-returned", g_cls_name),
              Fmt("class=%s lock=%d thread=%d payload was %" PRIu64 " under SIX and %" PRIu64
                  " right after UpgradeToX returned",
                  g_cls_name, b.index, t_mon.tid, seen_under_six, now));
    }
    if (t_mon.stats) t_mon.stats->Add("upgrades");
    return x;
  }

  void
  OpSixUp(Box &b, Rng &r, int op)
  {
    auto six = AcqSIX(b, op);
    const auto seen = ReadPayloadConsistent(b, kSIX, "SIX holder (before upgrade)");
    Hold(r);
    auto x = Upgrade(b, six, op, seen);
    SectionX(b, x, r, op, "UpgradeToX");
  }

  void
  OpXDown(Box &b, Rng &r, int op)
  {
    auto x = AcqX(b, op);
    uint32_t old_ver = 0;
    const auto idx = XSectionBegin(b, x, old_ver, "LockX");
    WritePayload(b, r);
    uint64_t written = 0;
    auto six = Downgrade(b, x, r, op, idx, old_ver, written);
    Hold(r);
    const auto now = ReadPayloadConsistent(b, kSIX, "downgraded SIX holder");
    if (now != written) {
      Violate("C10", Fmt("%s:value-written-under-X-changed-during-downgraded-SIX", g_cls_name),
              Fmt("class=%s lock=%d thread=%d wrote %" PRIu64 " under X, sees %" PRIu64
                  " under the SIX grant obtained by DowngradeToSIX",
                  g_cls_name, b.index, t_mon.tid, written, now));
    }
    CheckVersionUnderSharedHold(b, "SIX(downgraded)");
    UnregGrant(b, kSIX, conv_tl_[b.index]);
    conv_tl_[b.index] = false;
    Release(six, r, b.index, op);
  }

  void
  OpChain(Box &b, Rng &r, int op)
  {
    // X -> SIX -> X [-> SIX]
    auto x = AcqX(b, op);
    uint32_t old_ver = 0;
    auto idx = XSectionBegin(b, x, old_ver, "LockX");
    WritePayload(b, r);
    uint64_t written = 0;
    auto six = Downgrade(b, x, r, op, idx, old_ver, written);
    Hold(r);
    const auto seen = ReadPayloadConsistent(b, kSIX, "downgraded SIX holder");
    if (seen != written) {
      Violate("C10", Fmt("%s:value-written-under-X-changed-during-downgraded-SIX", g_cls_name),
              Fmt("class=%s lock=%d thread=%d wrote %" PRIu64 " under X, sees %" PRIu64
                  " under the SIX grant obtained by DowngradeToSIX",
                  g_cls_name, b.index, t_mon.tid, written, seen));
    }
    auto x2 = Upgrade(b, six, op, seen);
    if (r.Chance(1, 2)) {
      SectionX(b, x2, r, op, "UpgradeToX");
    } else {
      idx = XSectionBegin(b, x2, old_ver, "UpgradeToX");
      WritePayload(b, r);
      auto six2 = Downgrade(b, x2, r, op, idx, old_ver, written);
      Hold(r);
      const auto now = ReadPayloadConsistent(b, kSIX, "downgraded SIX holder");
      if (now != written) {
        Violate("C10", Fmt("%s:value-written-under-X-changed-during-downgraded-SIX", g_cls_name),
                Fmt("class=%s lock=%d wrote %" PRIu64 " sees %" PRIu64, g_cls_name, b.index,
                    written, now));
      }
      UnregGrant(b, kSIX, conv_tl_[b.index]);
      conv_tl_[b.index] = false;
      Release(six2, r, b.index, op);
    }
  }

  /*---------------------------------------------------------------- optimistic */
  struct OptWindow {
    uint64_t rel0, b0, d1, rel2, b2, b3, d3;
    uint64_t pay0;
    bool consistent;
  };

  // read the relaxed-atomic mirror of the payload
  bool
  OptReadPayload(Box &b, Rng &r, uint64_t &first)
  {
    uint64_t v[kPayWords];
    for (int i = 0; i < kPayWords; ++i) {
      v[i] = b.opay[i].load(kRlx);
      if (i == 3 && r.Chance(1, 3)) ClientPoint(kCpOptRead);
    }
    first = v[0];
    for (int i = 1; i < kPayWords; ++i) {
      if (v[i] != v[0]) return false;
    }
    return true;
  }

  // the set of versions that can have been current between "rel_lo sections released" and
  // "b_hi sections begun"
  bool
  PlausibleVersion(Box &b, uint32_t ver, uint64_t rel_lo, uint64_t b_hi, std::string &set)
  {
    bool ok = false;
    bool lapped = false;
    if (b_hi - rel_lo > 64) return true;  // too wide to decide: not judged
    for (uint64_t j = rel_lo; j <= b_hi; ++j) {
      uint32_t pv = 0;
      if (j != 0) {
        const auto e = b.pub[j % kPubRing].load(kMo);
        if ((e >> 32) != (j & 0xFFFFFFFFULL)) {
          // not yet published (section still active) - or the ring of published versions has been overwritten by a
          // later section since (this thread was descheduled for more than kPubRing sections): not judged then
          if ((e >> 32) > (j & 0xFFFFFFFFULL)) lapped = true;
          continue;
        }
        pv = static_cast<uint32_t>(e);
      }
      set += Fmt("%s#%" PRIu64 ":%u", set.empty() ? "" : ",", j, pv);
      if (pv == ver) ok = true;
    }
    return ok || lapped;
  }

  void
  JudgeNoHandOutUnderX(Box &b, uint64_t begun_before, uint64_t done_after, const char *api)
  {
    if (begun_before > done_after) {
      const char *prop = (strcmp(api, "PrepareRead") == 0) ? "C13" : "C03";
      Violate(prop, Fmt("opt:%s-returned-while-exclusive-section-active", api),
              Fmt("lock=%d thread=%d %s returned although exclusive section #%" PRIu64
                  " had begun before the call was made and had not ended when it returned "
                  "(x_begun before call=%" PRIu64 ", x_done after return=%" PRIu64 ")",
                  b.index, t_mon.tid, api, done_after + 1, begun_before, done_after));
    }
  }

  // judge the outcome of a version check made with a version obtained at window start
  void
  JudgeCheck(Box &b, const OptWindow &w, bool ok, uint32_t ver_before, uint32_t ver_after,
             const char *api)
  {
    auto *st = t_mon.stats;
    const bool overlapped = w.b2 > w.d1;
    if (st) {
      st->Add(ok ? "opt_checks_ok" : "opt_checks_failed");
      if (overlapped) st->Add("opt_windows_overlapping_an_exclusive_section");
    }
    t_mon.sigs[40 + (ok ? 0 : 1)] |= 1ULL << ((overlapped ? 1 : 0) + 2 * (strcmp(api, "VerifyVersion") == 0 ? 0 : (strcmp(api, "TryLockS") == 0 ? 1 : (strcmp(api, "TryLockSIX") == 0 ? 2 : (strcmp(api, "TryLockX") == 0 ? 3 : 4)))));
    const char *vprop = (strncmp(api, "CompositeGuard", 14) == 0) ? "C13" : "C03";
    if (ok) {
      if (!g_cfg.arbitrary_versions && overlapped) {
        Violate(vprop, Fmt("opt:%s-succeeded-across-exclusive-section", api),
                Fmt("lock=%d thread=%d %s succeeded although exclusive section #%" PRIu64
                    " was active or committed between obtaining version %u and the check "
                    "(x_done after GetVersion=%" PRIu64 ", x_begun before check=%" PRIu64 ")",
                    b.index, t_mon.tid, api, w.d1 + 1, ver_before, w.d1, w.b2));
      }
      // An owning guard returned by TryLock* excludes exclusive holders from its grant until b3 was read (the caller
      // still holds it), and every exclusive holder counts itself in x_begun before it releases: an exclusive section
      // counted in b3 but not finished at d1 was therefore committed between obtaining the version and the grant, also
      // when it began only after the call had sampled the lock word (commit between the admission load and the RMW).
      if (!g_cfg.arbitrary_versions && !overlapped && strncmp(api, "TryLock", 7) == 0 && w.b3 > w.d1) {
        Violate(vprop, Fmt("opt:%s-succeeded-across-exclusive-section:committed-during-the-call", api),
                Fmt("lock=%d thread=%d %s returned an owning guard with version %u although exclusive section #%" PRIu64
                    " was committed after the version was obtained and before the grant "
                    "(x_done after GetVersion=%" PRIu64 ", x_begun before the call=%" PRIu64 ", x_begun under the grant=%" PRIu64 ")",
                    b.index, t_mon.tid, api, ver_before, w.d1 + 1, w.d1, w.b2, w.b3));
      }
      if (!g_cfg.arbitrary_versions && !w.consistent) {
        Violate(vprop, Fmt("opt:%s-validated-inconsistent-snapshot", api),
                Fmt("lock=%d thread=%d %s succeeded but the payload read in between was "
                    "half-updated (first word %" PRIu64 ")",
                    b.index, t_mon.tid, api, w.pay0));
      }
      // a successful check also means: no exclusive holder active during the whole check
      if (w.b2 > w.d3) {
        Violate(vprop, Fmt("opt:%s-succeeded-while-exclusive-section-active", api),
                Fmt("lock=%d thread=%d %s succeeded although exclusive section #%" PRIu64
                    " was active during the whole check",
                    b.index, t_mon.tid, api, w.d3 + 1));
      }
      if (ver_after != ver_before) {
        Violate(vprop, Fmt("opt:%s-succeeded-but-changed-guard-version", api),
                Fmt("lock=%d %s succeeded with version %u but guard now carries %u", b.index, api,
                    ver_before, ver_after));
      }
    } else {
      if (w.b3 == w.rel0) {
        Violate(vprop, Fmt("opt:%s-failed-although-version-unchanged", api),
                Fmt("lock=%d thread=%d %s failed (guard version %u -> %u) although no exclusive "
                    "grant ended between obtaining the version and the check (x_rel before "
                    "GetVersion=%" PRIu64 " == x_begun after check=%" PRIu64 ")",
                    b.index, t_mon.tid, api, ver_before, ver_after, w.rel0, w.b3));
      }
      std::string set;
      if (!PlausibleVersion(b, ver_after, w.rel2, w.b3, set)) {
        Violate(vprop, Fmt("opt:%s-failed-and-left-a-version-that-was-never-current", api),
                Fmt("lock=%d thread=%d failed %s left the guard with version %u; versions that "
                    "can have been current during the call: {%s}",
                    b.index, t_mon.tid, api, ver_after, set.c_str()));
      }
    }
  }

  // held != nullptr (only with op == kOpOptRead): optimistic lock coupling - the version of lock b is read, then a grant
  // on the higher lock *held is taken, and the version of b is verified while that grant is held
  void
  OpOptimistic(Box &b, Rng &r, int op, Box *held = nullptr)
  {
    if constexpr (T::kOpt) {
      OptWindow w{};
      w.rel0 = b.x_rel.load(kMo);
      w.b0 = b.x_begun.load(kMo);
      typename L::OptGuard og;
      {
        LibCall lc{kPhCheck, b.index, op};
        og = b.lock.GetVersion();
      }
      w.d1 = b.x_done.load(kMo);
      JudgeNoHandOutUnderX(b, w.b0, w.d1, "GetVersion");
      CheckOwn(og, false, "OptGuard");
      const auto v0 = og.GetVersion();
      {
        std::string set;
        if (!PlausibleVersion(b, v0, w.rel0, b.x_begun.load(kMo), set)) {
          Violate("C03", "opt:GetVersion-returned-a-version-that-was-never-current",
                  Fmt("lock=%d thread=%d GetVersion returned %u; versions that can have been "
                      "current during the call: {%s}",
                      b.index, t_mon.tid, v0, set.c_str()));
        }
      }
      w.consistent = OptReadPayload(b, r, w.pay0);
      if (r.Chance(1, 8)) Hold(r);
      w.rel2 = b.x_rel.load(kMo);
      w.b2 = b.x_begun.load(kMo);
      if (op == kOpOptRead) {
        SG hs;
        XG hx;
        const bool held_x = held != nullptr && r.Chance(1, 2);
        if (held != nullptr) {
          if (held_x) {
            hx = AcqX(*held, kOpNested);
          } else {
            hs = AcqS(*held, kOpNested);
          }
          t_chaos.cur_op = op;
          w.rel2 = b.x_rel.load(kMo);
          w.b2 = b.x_begun.load(kMo);
          if (t_mon.stats) t_mon.stats->Add("opt_verifications_while_holding_a_higher_lock");
        }
        bool ok = false;
        {
          LibCall lc{kPhCheck, b.index, op};
          ok = og.VerifyVersion();
        }
        w.d3 = b.x_done.load(kMo);
        w.b3 = b.x_begun.load(kMo);
        JudgeCheck(b, w, ok, v0, og.GetVersion(), "VerifyVersion");
        if (held != nullptr) {
          if (held_x) {
            SectionX(*held, hx, r, kOpNested, "LockX");
          } else {
            SectionS(*held, hs, r, kOpNested);
          }
        }
      } else if (op == kOpTryS) {
        SG g;
        {
          LibCall lc{kPhAcquire, b.index, op};
          g = og.TryLockS();
        }
        const bool ok = static_cast<bool>(g);
        if (ok) RegGrant(b, kS, kApiTry);
        w.d3 = b.x_done.load(kMo);
        w.b3 = b.x_begun.load(kMo);
        JudgeCheck(b, w, ok, v0, og.GetVersion(), "TryLockS");
        if (ok) SectionS(b, g, r, op);
      } else if (op == kOpTrySIX) {
        SIXG g;
        {
          LibCall lc{kPhAcquire, b.index, op};
          g = og.TryLockSIX();
        }
        const bool ok = static_cast<bool>(g);
        if (ok) RegGrant(b, kSIX, kApiTry);
        w.d3 = b.x_done.load(kMo);
        w.b3 = b.x_begun.load(kMo);
        JudgeCheck(b, w, ok, v0, og.GetVersion(), "TryLockSIX");
        if (ok) {
          if (r.Chance(1, 3)) {
            const auto seen = ReadPayloadConsistent(b, kSIX, "SIX holder (before upgrade)");
            auto x = Upgrade(b, g, op, seen);
            SectionX(b, x, r, op, "UpgradeToX");
          } else {
            SectionSIX(b, g, r, op);
          }
        }
      } else {
        XG g;
        {
          LibCall lc{kPhAcquire, b.index, op};
          g = og.TryLockX();
        }
        const bool ok = static_cast<bool>(g);
        if (ok) RegGrant(b, kX, kApiTry);
        // counters are read before this thread's own section begins
        w.d3 = b.x_done.load(kMo);
        w.b3 = b.x_begun.load(kMo);
        JudgeCheck(b, w, ok, v0, og.GetVersion(), "TryLockX");
        if (ok) SectionX(b, g, r, op, "TryLockX");
      }
    } else {
      (void)b;
      (void)r;
      (void)op;
    }
  }

  void
  OpPrepare(Box &b, Rng &r, int op)
  {
    if constexpr (T::kOpt) {
      OptWindow w{};
      uint64_t ids_before[kMaxThreads];
      for (int u = 0; u < g_cfg.threads; ++u) ids_before[u] = b.grant_id[u].load(kMo);
      w.rel0 = b.x_rel.load(kMo);
      w.b0 = b.x_begun.load(kMo);
      typename L::CompositeGuard cg;
      {
        LibCall lc{kPhAcquire, b.index, op};
        cg = b.lock.PrepareRead();
      }
      const bool owning = static_cast<bool>(cg);
      if (owning) RegGrant(b, kS, kApiPrepare);
      w.d1 = b.x_done.load(kMo);
      JudgeNoHandOutUnderX(b, w.b0, w.d1, "PrepareRead");
      if (owning) {
        if (t_mon.stats) t_mon.stats->Add("prepare_owning");
        for (int u = 0; u < g_cfg.threads; ++u) {
          if (u == t_mon.tid || ids_before[u] == 0) continue;
          if (b.grant_id[u].load(kMo) == ids_before[u]) {
            Violate("C13", "opt:PrepareRead-took-shared-grant-while-lock-not-free",
                    Fmt("lock=%d thread=%d PrepareRead returned an owning guard although thread "
                        "%d held the same grant (id %" PRIx64 ") before the call and still "
                        "holds it after: the lock was not free at any instant of the call",
                        b.index, t_mon.tid, u, ids_before[u]));
            break;
          }
        }
        const auto v0 = ReadPayloadConsistent(b, kS, "owning CompositeGuard");
        CheckVersionUnderSharedHold(b, "S(PrepareRead)");
        Hold(r);
        bool ok = false;
        {
          LibCall lc{kPhCheck, b.index, op};
          ok = cg.VerifyVersion();
        }
        if (!ok) {
          Violate("C13", "opt:owning-CompositeGuard-VerifyVersion-failed",
                  Fmt("lock=%d thread=%d VerifyVersion on an owning CompositeGuard returned false",
                      b.index, t_mon.tid));
        }
        const auto v1 = ReadPayloadConsistent(b, kS, "owning CompositeGuard");
        if (v0 != v1) {
          Violate("C01", "opt:payload-changed-under-PrepareRead-shared-grant",
                  Fmt("lock=%d payload changed %" PRIu64 " -> %" PRIu64, b.index, v0, v1));
        }
        UnregGrant(b, kS);
        {
          LibCall lc{kPhRelease, b.index, op};
          const auto k = r.Below(4);
          if (k == 0) {
            cg = typename L::CompositeGuard{};
            CheckOwn(cg, false, "CompositeGuard after move-assigning an empty guard");
          } else if (k == 1) {
            typename L::CompositeGuard c2{std::move(cg)};
            CheckOwn(cg, false, "moved-from CompositeGuard");
            CheckOwn(c2, true, "move-constructed CompositeGuard");
          } else if (k == 2) {
            typename L::CompositeGuard c2{};
            c2 = std::move(cg);
            CheckOwn(cg, false, "moved-from CompositeGuard");
            CheckOwn(c2, true, "move-assigned CompositeGuard");
          } else {
            typename L::CompositeGuard c2{std::move(cg)};
            (void)c2;
          }
        }
      } else {
        if (t_mon.stats) t_mon.stats->Add("prepare_optimistic");
        const auto v0 = cg.GetVersion();
        {
          std::string set;
          if (!PlausibleVersion(b, v0, w.rel0, b.x_begun.load(kMo), set)) {
            Violate("C13", "opt:PrepareRead-returned-a-version-that-was-never-current",
                    Fmt("lock=%d PrepareRead returned %u; candidates {%s}", b.index, v0,
                        set.c_str()));
          }
        }
        w.consistent = OptReadPayload(b, r, w.pay0);
        w.rel2 = b.x_rel.load(kMo);
        w.b2 = b.x_begun.load(kMo);
        bool ok = false;
        {
          LibCall lc{kPhCheck, b.index, op};
          ok = cg.VerifyVersion();
        }
        w.d3 = b.x_done.load(kMo);
        w.b3 = b.x_begun.load(kMo);
        JudgeCheck(b, w, ok, v0, cg.GetVersion(), "CompositeGuard::VerifyVersion");
        CheckOwn(cg, false, "non-owning CompositeGuard after VerifyVersion");
      }
    } else {
      (void)b;
      (void)r;
      (void)op;
    }
  }

  /*---------------------------------------------------------------- dispatch -*/
  void
  SimpleOp(Box &b, Rng &r, int op)
  {
    t_chaos.cur_op = op;
    switch (op) {
      case kOpS: {
        auto g = AcqS(b, op);
        SectionS(b, g, r, op);
        break;
      }
      case kOpSIX: {
        auto g = AcqSIX(b, op);
        SectionSIX(b, g, r, op);
        break;
      }
      case kOpX: {
        auto g = AcqX(b, op);
        SectionX(b, g, r, op, "LockX");
        break;
      }
      case kOpSixUp: OpSixUp(b, r, op); break;
      case kOpXDown: OpXDown(b, r, op); break;
      case kOpChain: OpChain(b, r, op); break;
      case kOpOptRead:
      case kOpTryS:
      case kOpTrySIX:
      case kOpTryX: OpOptimistic(b, r, op); break;
      case kOpPrepare: OpPrepare(b, r, op); break;
      default: break;
    }
  }

  int
  PickOp(Rng &r, bool allow_nested)
  {
    uint64_t total = 0;
    for (int i = 0; i < kOpCount; ++i) {
      if (i == kOpNested && !allow_nested) continue;
      total += g_cfg.weights[i];
    }
    auto k = r.Below(total);
    for (int i = 0; i < kOpCount; ++i) {
      if (i == kOpNested && !allow_nested) continue;
      if (k < g_cfg.weights[i]) return i;
      k -= g_cfg.weights[i];
    }
    return kOpS;
  }

  void
  Worker(int tid)
  {
    ChaosThreadBegin(tid, g_cfg.seed);
    MonStats stats;
    t_mon = MonTls{};
    t_mon.tid = tid;
    t_mon.stats = &stats;
    Rng r;
    r.Seed(g_cfg.seed * 1000003ULL + static_cast<uint64_t>(tid));
    for (uint64_t n = 0; n < g_cfg.ops; ++n) {
      g_prog[tid].op_no.store(n + 1, kRlx);
      const int op = PickOp(r, g_cfg.locks > 1);
      if (op == kOpNested) {
        const int i = static_cast<int>(r.Below(g_cfg.locks - 1));
        const int j = i + 1 + static_cast<int>(r.Below(g_cfg.locks - 1 - i));
        const int inner = PickOp(r, false);
        // with lock coupling in the program no thread may wait for a higher lock while it holds X on a lower one
        // (VerifyVersion legitimately waits for an exclusive holder): the outer grant is S or SIX then
        const auto outer_mode = r.Below(g_cfg.coupling ? 2 : 3);
        t_chaos.cur_op = kOpNested;
        auto &bo = boxes_[i];
        if (outer_mode == 0) {
          auto g = AcqS(bo, kOpNested);
          SimpleOp(boxes_[j], r, inner);
          t_chaos.cur_op = kOpNested;
          SectionS(bo, g, r, kOpNested);
        } else if (outer_mode == 1) {
          auto g = AcqSIX(bo, kOpNested);
          SimpleOp(boxes_[j], r, inner);
          t_chaos.cur_op = kOpNested;
          SectionSIX(bo, g, r, kOpNested);
        } else {
          auto g = AcqX(bo, kOpNested);
          SimpleOp(boxes_[j], r, inner);
          t_chaos.cur_op = kOpNested;
          SectionX(bo, g, r, kOpNested, "LockX");
        }
        stats.Add("ops_nested");
      } else if (T::kOpt && g_cfg.coupling && g_cfg.locks > 1 && r.Chance(1, 5)) {
        const int i = static_cast<int>(r.Below(g_cfg.locks - 1));
        const int j = i + 1 + static_cast<int>(r.Below(g_cfg.locks - 1 - i));
        t_chaos.cur_op = kOpOptRead;
        OpOptimistic(boxes_[i], r, kOpOptRead, &boxes_[j]);
        stats.Add("ops_coupling");
      } else {
        auto &b = boxes_[r.Below(g_cfg.locks)];
        SimpleOp(b, r, op);
      }
      stats.Add(Fmt("ops_%s", kOpNames[op]).c_str());
      g_ops_done.fetch_add(1, kRlx);
      t_chaos.cur_op = 63;
      ClientPoint(kCpBetweenOps);
    }
    // merge
    {
      std::lock_guard<std::mutex> g{merge_mtx_};
      for (auto &[k, v] : stats.c) merged_.c[k] += v;
      merged_.c["guard_ownership_checks"] += own_checks_tl_;
      own_checks_tl_ = 0;
      for (int i = 0; i < 64; ++i) sigs_[i] |= t_mon.sigs[i];
    }
    t_mon.stats = nullptr;
    ChaosThreadEnd();
    g_prog[tid].done.store(true, kMo);
  }

  std::mutex merge_mtx_;
  MonStats merged_;
  uint64_t sigs_[64]{};
};

/*------------------------------------------------------------------------------
 * point callback: arrival stamps (C11), node poisoning (C12, ASan)
 *----------------------------------------------------------------------------*/
void
PointCb(int id, const void *obj)
{
  using namespace ::dbgroup::verif;
  switch (id) {
    case kMcsXExchanged:
    case kMcsSJoined:
    case kMcsSNewGroup: {
      auto &t = t_mon;
      if (t.pend_slot != nullptr && t.pend_lock == obj) {
        const auto v = t.pend_slot->load(kRlx);
        if ((v >> 8) == 0) t.pend_slot->store((Tick() << 8) | (v & 0xFF), kMo);
      }
      break;
    }
    case kMcsNodeTaken:
      NodeStateTaken(obj);
#if VERIF_ASAN
      ASAN_UNPOISON_MEMORY_REGION(obj, 8);
#endif
      break;
    case kMcsNodeRecycle:
      NodeStateRecycled(obj);
#if VERIF_ASAN
      ASAN_POISON_MEMORY_REGION(obj, 8);
#endif
      break;
    default: break;
  }
}

/*------------------------------------------------------------------------------
 * crash handler: a fault inside a library call is reported as a violation
 *----------------------------------------------------------------------------*/
void
CrashHandler(int sig, siginfo_t *si, void *)
{
  static std::atomic<int> once{0};
  if (once.exchange(1) != 0) {
    for (;;) pause();  // another thread is already writing the report and will end the process
  }
  const int tid = t_mon.tid;
  uint32_t st = 0;
  if (tid >= 0 && tid < kMaxThreads) st = g_prog[tid].state.load(kRlx);
  const auto ph = st >> 16;
  const bool mcs = strcmp(g_cls_name, "mcs") == 0;
  // a fault in MCSLock code is an access through an invalid queue-node pointer (C12); the other classes only
  // dereference the lock pointer stored in a guard (C07)
  const char *prop = (ph == kPhClient) ? "HARNESS" : (mcs ? "C12" : "C07");
  char buf[1024];
  const int n = snprintf(buf, sizeof buf,
                         "RESULT {\"status\":\"crash\",\"counters\":{\"crashes\":1,\"evaluations\":%" PRIu64 ",\"ops_total\":%" PRIu64
                         "},\"strings\":{},\"chaos\":{},\"samples\":[],\"signatures\":[],\"violations\":[{\"prop\":\"%s\","
                         "\"key\":\"%s:invalid-memory-access-inside-library-call:%s\",\"detail\":\"class=%s profile=%s signal %d at address %p "
                         "while thread %d was in phase '%s' of op '%s' on lock %u\",\"count\":1}],\"observations\":{}}\n",
                         g_ops_done.load(kRlx), g_ops_done.load(kRlx), prop, g_cls_name, ph < 5 ? kPhaseNames[ph] : "?", g_cls_name,
                         g_cfg.profile.c_str(), sig, si ? si->si_addr : nullptr, tid, ph < 5 ? kPhaseNames[ph] : "?",
                         (st & 0xFF) < kOpCount ? kOpNames[st & 0xFF] : "?", (st >> 8) & 0xFF);
  if (n > 0) {
    const auto w = write(1, buf, static_cast<size_t>(n));
    (void)w;
  }
  _exit(0);
}

/*------------------------------------------------------------------------------
 * profiles
 *----------------------------------------------------------------------------*/
void
SetWeights(const std::string &p, bool opt, Rng &r)
{
  auto &w = g_cfg.weights;
  auto set = [&](std::initializer_list<uint32_t> l) {
    int i = 0;
    for (auto v : l) w[i++] = v;
  };
  //            S  SIX  X  SIXUP XDOWN CHAIN OPTR TRYS TRY6 TRYX PREP NEST
  if (p == "mixed") {
    set({20, 10, 15, 8, 8, 5, 10, 5, 5, 5, 8, 6});
  } else if (p == "readers") {
    set({50, 8, 6, 3, 3, 1, 15, 5, 2, 2, 8, 4});
  } else if (p == "writers") {
    set({8, 5, 40, 8, 8, 5, 8, 2, 2, 8, 4, 4});
  } else if (p == "convert") {
    set({15, 10, 8, 25, 20, 15, 3, 1, 3, 1, 2, 4});
  } else if (p == "optimistic") {
    set({4, 3, 15, 5, 6, 3, 30, 8, 8, 10, 12, 0});
  } else if (p == "prepare") {
    set({6, 6, 25, 4, 6, 2, 5, 2, 2, 3, 40, 0});
  } else if (p == "xonly") {
    set({0, 0, 100, 0, 0, 0, 0, 0, 0, 0, 0, 0});
  } else if (p == "sx") {
    set({60, 0, 40, 0, 0, 0, 0, 0, 0, 0, 0, 0});
  } else if (p == "ssix") {
    set({45, 30, 10, 10, 5, 0, 0, 0, 0, 0, 0, 0});
  } else if (p == "starve") {
    set({90, 0, 10, 0, 0, 0, 0, 0, 0, 0, 0, 0});
  } else if (p == "random") {
    for (int i = 0; i < kOpCount; ++i) w[i] = static_cast<uint32_t>(r.Below(4) == 0 ? 0 : r.Range(1, 30));
    w[kOpX] += 3;
  } else {
    fprintf(stderr, "unknown profile %s\n", p.c_str());
    exit(2);
  }
  if (!opt) {
    for (int i : {kOpOptRead, kOpTryS, kOpTrySIX, kOpTryX, kOpPrepare}) w[i] = 0;
  }
  if (g_cfg.locks < 2) w[kOpNested] = 0;
  uint64_t total = 0;
  for (int i = 0; i < kOpCount; ++i) total += w[i];
  if (total == 0) w[kOpX] = 1;
}

/*------------------------------------------------------------------------------
 * run
 *----------------------------------------------------------------------------*/
template <class L>
int
Run()
{
  using T = Traits<L>;
  g_cls_name = T::kName;
  static Engine<L> eng;
  for (int i = 0; i < kMaxLocks; ++i) {
    eng.boxes_[i].index = i;
    g_pay_ranges[i] = {reinterpret_cast<uint64_t>(&eng.boxes_[i].pay[0]),
                       reinterpret_cast<uint64_t>(&eng.boxes_[i].pay[0]) + sizeof(PayWord) * kPayWords,
                       i};
  }
  g_pay_range_n = kMaxLocks;
  g_point_cb = &PointCb;
#if !VERIF_ASAN && !VERIF_TSAN
  {
    struct sigaction sa {};
    sa.sa_sigaction = &CrashHandler;
    sa.sa_flags = SA_SIGINFO;
    sigaction(SIGSEGV, &sa, nullptr);
    sigaction(SIGBUS, &sa, nullptr);
    sigaction(SIGABRT, &sa, nullptr);
  }
#endif

  Rng pr;
  pr.Seed(g_cfg.seed ^ 0xC0FFEEULL);
  SetWeights(g_cfg.profile, T::kOpt, pr);
  std::vector<int> cand;
  {
    using namespace ::dbgroup::verif;
    if constexpr (T::kMcs) {
      cand = {kMcsSBeforeCas,     kMcsSJoined,        kMcsSNewGroup,     kMcsSWaitNext,
              kMcsXExchanged,     kMcsXFlagsStored,   kMcsXLinked,       kMcsUnlockTailPath,
              kMcsUnlockWaitLink, kMcsUnlockHandOff,  kMcsConvTailPath,  kMcsConvHandOff,
              kMcsUpgradeDrained, kMcsNodeRecycle};
    } else if constexpr (T::kOpt) {
      cand = {kAdmitS,    kAdmitSIX,    kAdmitX,    kAdmitUpgrade,      kAdmitTryS,
              kAdmitTrySIX, kAdmitTryX, kPrepareOptimistic, kPrepareFallback, kVerifyLoaded,
              kGetVersionLoaded};
    } else {
      cand = {kAdmitS, kAdmitSIX, kAdmitX, kAdmitUpgrade};
    }
  }
  cand.push_back(kCpInCs);
  cand.push_back(kCpBetweenOps);
  cand.push_back(kCpOptRead);
  MakePlan(pr, cand, g_cfg.chaos);
  if (g_cfg.chaos > 0) {
    // critical sections always get some delay so that holders overlap requesters
    g_plan.prob[kCpInCs] = std::max<uint32_t>(g_plan.prob[kCpInCs], 1500);
  }

  if (g_cfg.edge) {
    // Edge of the shared counter: one thread takes K shared grants on a lock nobody else uses (K on both sides of 2^14
    // and 2^15 - 1 for MCSLock's 15-bit counter, 70000 for the others), releases one, and an exclusive request of
    // another thread must stay blocked while the other K - 1 are alive and be granted once they are gone.
    static L edge_lock{};
    const std::vector<size_t> ks = T::kMcs ? std::vector<size_t>{16385, 32767, 16384} : std::vector<size_t>{70000};
    std::atomic<int> probe_done{0};
    std::atomic<uint64_t> probe_progress{0};
    std::thread probe_watchdog{[&] {
      // every step of the probe must return: taking, releasing and handing over K shared grants
      uint64_t last = ~0ULL, since = NowNs();
      while (probe_done.load() == 0) {
        SleepNs(10000000);
        const auto v = probe_progress.load();
        if (v != last) {
          last = v;
          since = NowNs();
        } else if (NowNs() - since > 2 * g_cfg.hang_s * 1000000000ULL) {
          Violate("C02", Fmt("%s:no-progress:many-shared-grants", T::kName),
                  Fmt("class=%s: taking or releasing many shared grants of one lock made no progress for %" PRIu64 " s (step %" PRIu64 ")", T::kName,
                      2 * g_cfg.hang_s, v));
          Result res;
          res.Add("hangs", 1);
          EmitResult(res, "hang");
          fflush(stdout);
          _exit(0);
        }
      }
    }};
    for (const auto k : ks) {
      std::vector<typename L::SGuard> guards;
      guards.reserve(k);
      for (size_t i = 0; i < k; ++i) {
        guards.emplace_back(edge_lock.LockS());
        probe_progress.fetch_add(1, kRlx);
      }
      guards.pop_back();
      probe_progress.fetch_add(1, kRlx);
      std::atomic<int> granted{0}, done{0};
      std::thread helper{[&] {
        auto x = edge_lock.LockX();
        granted.store(1);
        while (done.load() == 0) sched_yield();
      }};
      SleepNs(30000000);
      if (granted.load() != 0) {
        Violate("C01", Fmt("%s:Lock-granted-X-while-conflicting-grant-held:many-shared-grants", T::kName),
                Fmt("class=%s: LockX was granted while %zu of %zu shared grants taken on the lock were still alive", T::kName, k - 1, k));
        Result res;  // the lock is in an undefined state now: report at once
        res.Add("shared_counter_edge_probes", g_edge_probes.load() + 1);
        EmitResult(res, "violation");
        fflush(stdout);
        _exit(0);
      }
      while (!guards.empty()) {
        guards.pop_back();
        probe_progress.fetch_add(1, kRlx);
      }
      const auto tw = NowNs();
      while (granted.load() == 0 && NowNs() - tw < g_cfg.hang_s * 1000000000ULL) sched_yield();
      if (granted.load() == 0) {
        Violate("C02", Fmt("%s:no-progress:LockX-after-many-shared-grants-were-released", T::kName),
                Fmt("class=%s: %zu shared grants were taken and all released, yet LockX is not granted within %" PRIu64 " s", T::kName, k, g_cfg.hang_s));
        Result res;
        res.Add("hangs", 1);
        EmitResult(res, "hang");
        fflush(stdout);
        _exit(0);
      }
      done.store(1);
      helper.join();
      g_edge_probes.fetch_add(1, kRlx);
      probe_progress.fetch_add(1, kRlx);
    }
    probe_done.store(1);
    probe_watchdog.join();
  }
  const auto t0 = NowNs();
  std::vector<std::thread> th;
  for (int i = 0; i < g_cfg.threads; ++i) th.emplace_back([i] { eng.Worker(i); });

  // watchdog: structural hang detection
  bool hang = false;
  {
    uint64_t last_sum = ~0ULL;
    uint64_t last_change = NowNs();
    uint64_t cpu_at_change = CpuNs();
    while (true) {
      SleepNs(50ULL * 1000 * 1000);
      bool all_done = true;
      uint64_t sum = 0;
      for (int i = 0; i < g_cfg.threads; ++i) {
        all_done = all_done && g_prog[i].done.load(kMo);
        sum += g_prog[i].op_no.load(kRlx) * 4 + (g_prog[i].state.load(kRlx) >> 16);
      }
      sum += g_ops_done.load(kRlx);
      if (all_done) break;
      const auto now = NowNs();
      if (sum != last_sum) {
        last_sum = sum;
        last_change = now;
        cpu_at_change = CpuNs();
        continue;
      }
      if (now - last_change < g_cfg.hang_s * 1000000000ULL) continue;
      // no progress for hang_s seconds: structural conditions
      bool all_in_lib = true;
      std::string states;
      for (int i = 0; i < g_cfg.threads; ++i) {
        if (g_prog[i].done.load(kMo)) {
          states += Fmt("t%d:done ", i);
          continue;
        }
        const auto s = g_prog[i].state.load(kRlx);
        const auto ph = s >> 16;
        if (ph == kPhClient) all_in_lib = false;
        states += Fmt("t%d:%s(%s,lock%u)@op%" PRIu64 " ", i, kPhaseNames[ph], kOpNames[s & 0xFF],
                      (s >> 8) & 0xFF, g_prog[i].op_no.load(kRlx));
      }
      const auto cpu = CpuNs() - cpu_at_change;
      if (!all_in_lib || cpu < 200ULL * 1000 * 1000) {
        // not a structural hang (or the process did not get CPU): keep waiting up to 6x
        if (now - last_change < 6 * g_cfg.hang_s * 1000000000ULL) continue;
        Result res;
        res.strings["why"] = "no progress but not every thread inside a library call: " + states;
        EmitResult(res, "inconclusive");
        fflush(stdout);
        _exit(3);
      }
      std::string ghosts;
      for (int i = 0; i < g_cfg.locks; ++i) {
        ghosts += Fmt("lock%d:%s word=%016" PRIx64 " ", i, GStr(eng.boxes_[i].ghost.load(kRlx)).c_str(),
                      reinterpret_cast<std::atomic<uint64_t> *>(&eng.boxes_[i].lock)->load(kRlx));
      }
      // key: the set of phases in which threads are stuck
      bool in_acq = false, in_rel = false, in_conv = false, in_chk = false;
      for (int i = 0; i < g_cfg.threads; ++i) {
        if (g_prog[i].done.load(kMo)) continue;
        const auto ph = g_prog[i].state.load(kRlx) >> 16;
        in_acq |= ph == kPhAcquire;
        in_rel |= ph == kPhRelease;
        in_conv |= ph == kPhConvert;
        in_chk |= ph == kPhCheck;
      }
      bool any_holder = false;
      for (int i = 0; i < g_cfg.locks; ++i) any_holder |= (eng.boxes_[i].ghost.load(kRlx) & 0xFFFFFFFFFFFFULL) != 0;
      Violate("C02",
              Fmt("%s:no-progress:stuck-in%s%s%s%s:%s", T::kName, in_acq ? "-acquire" : "",
                  in_rel ? "-release" : "", in_conv ? "-convert" : "", in_chk ? "-check" : "",
                  any_holder ? "holders-registered" : "no-holder-registered"),
              Fmt("class=%s profile=%s no operation completed for %" PRIu64
                  " s while every unfinished thread was inside a library call and the process "
                  "consumed %.1f s CPU; threads: %s; ghost registry / raw lock words: %s",
                  T::kName, g_cfg.profile.c_str(), g_cfg.hang_s, cpu / 1e9, states.c_str(),
                  ghosts.c_str()));
      hang = true;
      break;
    }
  }

  Result res;
  if (hang) {
    res.Add("hangs", 1);
  } else {
    for (auto &t : th) t.join();
  }
  const auto wall = NowNs() - t0;

  if (!hang) {
    // C02: after the last guard is gone a fresh exclusive request must succeed (helper thread + bounded wait)
    {
      std::atomic<int> step{0};
      std::thread helper([&] {
        ChaosThreadBegin(kMaxThreads - 1, g_cfg.seed);
        t_chaos.enabled = false;
        t_mon = MonTls{};
        t_mon.tid = kMaxThreads - 1;
        for (int i = 0; i < g_cfg.locks; ++i) {
          tl_track = 1;
          {
            auto x = eng.boxes_[i].lock.LockX();
            (void)x;
          }
          tl_track = 0;
          if constexpr (T::kOpt) eng.boxes_[i].ghost_ver.fetch_add(1, kMo);  // the probe's own section published +1
          step.store(i + 1, kMo);
        }
      });
      const auto tw = NowNs();
      while (step.load(kMo) < g_cfg.locks && NowNs() - tw < g_cfg.hang_s * 1000000000ULL) SleepNs(200000);
      if (step.load(kMo) < g_cfg.locks) {
        const int i = step.load(kMo);
        if constexpr (!T::kMcs) {
          const auto word = reinterpret_cast<std::atomic<uint64_t> *>(&eng.boxes_[i].lock)->load(kRlx);
          const uint64_t s_cnt = T::kOpt ? ((word >> 32) & 0x3FFFFFFFULL) : (word & 0x3FFFFFFFFFFFFFFFULL);
          if (s_cnt != 0 || (word >> 62) != 0) {
            Violate("C07", Fmt("%s:grants-left-in-the-lock-word-after-every-guard-was-destroyed", T::kName),
                    Fmt("class=%s profile=%s: all workers finished and every guard was destroyed (ghost registry empty), but lock %d's word %016" PRIx64
                        " still encodes S:%" PRIu64 " SIX:%d X:%d - a grant that no guard owns (never released, or released twice)",
                        T::kName, g_cfg.profile.c_str(), i, word, s_cnt, static_cast<int>((word >> 62) & 1), static_cast<int>(word >> 63)));
          }
        }
        Violate("C02", Fmt("%s:fresh-LockX-blocks-after-last-guard-gone", T::kName),
                Fmt("class=%s profile=%s: all workers finished and released everything (ghost registry empty), yet a fresh "
                    "LockX on lock %d did not return within %" PRIu64 " s; raw lock word %016" PRIx64,
                    T::kName, g_cfg.profile.c_str(), i, g_cfg.hang_s,
                    reinterpret_cast<std::atomic<uint64_t> *>(&eng.boxes_[i].lock)->load(kRlx)));
        Result r2;
        r2.Add("hangs", 1);
        EmitResult(r2, "hang");
        fflush(stdout);
        _exit(0);
      }
      helper.join();
    }
    // final checks (quiescent): everything released
    for (int i = 0; i < g_cfg.locks; ++i) {
      auto &b = eng.boxes_[i];
      if (b.ghost.load() != 0) {
        Violate("HARNESS", "ghost-registry-not-empty-at-end", GStr(b.ghost.load()));
      }
      if constexpr (T::kOpt) {
        // C09: final version equals the last published one
        auto og = b.lock.GetVersion();
        if (og.GetVersion() != b.ghost_ver.load()) {
          Violate("C09", "opt:final-version-differs-from-last-published",
                  Fmt("lock=%d final GetVersion()=%u, last published %u", i, og.GetVersion(),
                      b.ghost_ver.load()));
        }
      }
    }
    if constexpr (T::kMcs) {
      // C12: all workers have exited (their node caches are destroyed): no node may be live
      const auto live = g_nodes_live.load();
      res.Add("mcs_nodes_allocated", g_nodes_allocated.load());
      res.Add("mcs_nodes_freed", g_nodes_freed.load());
      res.Add("mcs_nodes_peak_live", g_nodes_peak.load());
      res.Add("mcs_nodes_live_at_end", live > 0 ? live : 0);
      if (live != 0 || g_node_overflow.load()) {
        Violate("C12", "mcs:queue-nodes-still-allocated-after-all-threads-exited",
                Fmt("profile=%s threads=%d locks=%d: %" PRId64 " of %" PRIu64
                    " queue nodes allocated inside lock operations were never freed although "
                    "all guards were released and all participating threads have exited",
                    g_cfg.profile.c_str(), g_cfg.threads, g_cfg.locks, live,
                    g_nodes_allocated.load()));
      }
      const auto bound = static_cast<uint64_t>(g_cfg.threads) * (1 + g_cfg.locks);
      if (g_nodes_peak.load() > bound) {
        Violate("C12", "mcs:live-queue-nodes-exceed-threads-plus-outstanding-requests",
                Fmt("peak live nodes %" PRIu64 " > threads (%d) + max outstanding requests (%d)",
                    g_nodes_peak.load(), g_cfg.threads, g_cfg.threads * g_cfg.locks));
      }
    }
  }

  if constexpr (T::kMcs) ReportNodeStateViolations();
  // sanitizer records
  {
    const int n = std::min(g_san_n.load(), kMaxSan);
    for (int i = 0; i < n; ++i) {
      const auto &s = g_san[i];
      if (s.kind == 1) {
        Violate("C08", Fmt("%s:data-race-on-lock-protected-payload", T::kName),
                Fmt("class=%s ThreadSanitizer reported a data race on payload word %d of lock %d "
                    "(plain memory touched only inside granted sections); reporting thread %d "
                    "was executing op '%s' (%s access)",
                    T::kName, s.word, s.lock_index, s.tid,
                    (s.op >= 0 && s.op < kOpCount) ? kOpNames[s.op] : "?", s.write ? "write" : "read"));
      } else if (s.kind == 2) {
        Observe("tsan-report-outside-payload", Fmt("addr=%" PRIx64 " op=%d", s.addr, s.op));
      } else if (s.kind == 3) {
        Violate("C12", "mcs:queue-node-accessed-after-free-or-recycling",
                Fmt("AddressSanitizer reported an invalid access to address %" PRIx64
                    ", which is (or was) an MCS queue node; reporting thread %d op '%s'",
                    s.addr, s.tid, (s.op >= 0 && s.op < kOpCount) ? kOpNames[s.op] : "?"));
      } else {
        Observe("asan-report-outside-queue-nodes", Fmt("addr=%" PRIx64, s.addr));
      }
    }
    res.Add("tsan_payload_race_reports", g_san_total[1].load());
    res.Add("tsan_other_reports", g_san_total[2].load());
    res.Add("asan_node_reports", g_san_total[3].load());
    res.Add("asan_other_reports", g_san_total[4].load());
  }

  for (auto &[k, v] : eng.merged_.c) res.Add(k, v);
  res.Add("ops_total", g_ops_done.load());
  res.Add("evaluations", g_ops_done.load());
  res.Add("runs", 1);
  res.Add("wall_ms", wall / 1000000);
  if (g_cfg.edge) res.Add("shared_counter_edge_probes", g_edge_probes.load());
  if (g_cfg.step) {
    res.Add("stepper_calls_single_stepped", g_stepped_calls.load());
    res.Add("stepper_stalls_at_single_instructions", g_step_stalls.load());
    res.Add("stepper_instructions_single_stepped", g_step_traps.load());
  }
  uint64_t xs = 0;
  for (int i = 0; i < g_cfg.locks; ++i) xs += eng.boxes_[i].x_begun.load();
  res.Add("exclusive_sections", xs);
  // signatures: (api, mode, ghost-state class before the grant)
  static const char *kGc[] = {"free", "S", "SIX", "S+SIX", "X"};
  for (int a = 0; a < 5; ++a) {
    for (int m = 0; m < 3; ++m) {
      for (int c = 0; c < 5; ++c) {
        if (eng.sigs_[(a * 4 + m) & 63] & (1ULL << c)) {
          res.signatures.push_back(Fmt("%s:grant:%s:%s:ghost-before=%s", T::kName, ApiName(a), ModeName(m), kGc[c]));
        }
      }
    }
  }
  static const char *kChk[] = {"VerifyVersion", "TryLockS", "TryLockSIX", "TryLockX", "Composite::VerifyVersion"};
  for (int ok = 0; ok < 2; ++ok) {
    for (int c = 0; c < 10; ++c) {
      if (eng.sigs_[40 + ok] & (1ULL << c)) {
        res.signatures.push_back(Fmt("%s:check:%s:%s:%s", T::kName, kChk[c / 2], ok == 0 ? "ok" : "failed",
                                     (c & 1) ? "window-overlapped-X-section" : "no-overlap"));
      }
    }
  }
  res.strings["cls"] = T::kName;
  res.strings["profile"] = g_cfg.profile;
  res.samples.push_back(Fmt("{\"cls\":\"%s\",\"profile\":\"%s\",\"threads\":%d,\"locks\":%d,\"ops_per_thread\":%" PRIu64
                            ",\"seed\":%" PRIu64 ",\"chaos\":%d,\"hold_ns\":%" PRIu64 "}",
                            T::kName, g_cfg.profile.c_str(), g_cfg.threads, g_cfg.locks, g_cfg.ops,
                            g_cfg.seed, g_cfg.chaos, g_cfg.hold_ns));
  EmitResult(res, hang ? "hang" : "ok");
  if (hang) {
    fflush(stdout);
    _exit(0);
  }
  return 0;
}

}  // namespace vf

int
main(int argc, char **argv)
{
  using namespace vf;
  Args a{argc, argv};
  g_cfg.cls = a.S("cls", "pess");
  g_cfg.threads = static_cast<int>(a.U("threads", 8));
  g_cfg.locks = static_cast<int>(a.U("locks", 1));
  g_cfg.ops = a.U("ops", 5000);
  g_cfg.seed = a.U("seed", 1);
  g_cfg.profile = a.S("profile", "mixed");
  g_cfg.chaos = static_cast<int>(a.U("chaos", 2));
  g_cfg.hold_ns = a.U("hold", 2000);
  g_cfg.hang_s = a.U("hang_s", 20);
  g_cfg.arbitrary_versions = a.U("arbver", 0) != 0;
  g_cfg.coupling = a.U("coupling", 0) != 0;
  g_cfg.edge = a.U("edge", 0) != 0;
  g_cfg.step = VERIF_STEPPER && a.U("step", 0) != 0;
  if (g_cfg.step) StepperInstall();
  if (a.U("preempt", 0) != 0) PreempterStart(g_cfg.seed, 30, 400, 10, 200);
  if (g_cfg.threads < 1 || g_cfg.threads > kMaxThreads || g_cfg.locks < 1 || g_cfg.locks > kMaxLocks) {
    fprintf(stderr, "bad threads/locks\n");
    return 2;
  }
  if (g_cfg.cls == "pess") return Run<Pess>();
  if (g_cfg.cls == "opt") return Run<Opt>();
  if (g_cfg.cls == "mcs") return Run<Mcs>();
  fprintf(stderr, "unknown cls\n");
  return 2;
}
