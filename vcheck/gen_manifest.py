#!/usr/bin/env python3
"""Regenerates /verif/MANIFEST.json from the table below (single source of truth)."""
import json
import os
import subprocess

VERIF = os.path.dirname(os.path.dirname(os.path.abspath(__file__)))

CHECKS = {
    # id: (engine, technique, level text, level note, design ref)
    "C01": ("lock_stress+lock_seq", "ghost lock registry + payload consistency monitors over chaos stress runs (injected delays, signal and "
            "trap-flag stalls, full-speed runs, shared-counter edge probe)",
            "Held on the executions produced: tens of short multi-thread chaos runs per lock class with a ghost "
            "registry of grants (registered inside the real hold interval) and a payload that X holders update "
            "word by word; any conflicting pair of registered grants or half-updated read is a real overlap.",
            "schedules are sampled, not enumerated; overlaps shorter than the registration window can be missed",
            "DESIGN.md §4 C01"),
    "C02": ("lock_stress+lock_seq", "structural progress watchdog over finite chaos workloads",
            "Liveness restated as bounded progress: every worker of every finite run must finish its operation "
            "budget; a run in which no operation completes for the horizon while every thread is inside a "
            "library call and the process burns CPU is a hang witness.",
            "fair OS scheduler; 'eventually' = within the watchdog horizon", "DESIGN.md §4 C02"),
    "C03": ("lock_stress+lock_seq", "sandwich-counter monitor (x_begun/x_done/x_rel) around optimistic checks",
            "Every optimistic check is judged from monotone counters read before/after the calls: success across "
            "an exclusive section (for TryLock* also one committed inside the call, judged from x_begun re-read under the new grant), inconsistent validated snapshot, spurious failure, stale refreshed version and "
            "hand-out under X are each an implication from observed facts to a contradiction.",
            "needs exclusion (C01) for the section numbering; 2^32-commit ABA out of reach", "DESIGN.md §4 C03"),
    "C07": ("lock_seq+lock_stress", "executable guard-ownership model checked after every operation",
            "operator bool of every live guard is compared with an exact ownership model after every construction, "
            "move, conversion and destruction in random programs on all three classes; release-exactly-once is "
            "observed through admissibility probes and the ghost registry.",
            "programs are sampled from the guard API grammar", "DESIGN.md §4 C07"),
    "C08": ("lock_stress (TSan build)", "ThreadSanitizer happens-before race detection on lock-protected plain data",
            "TSan computes happens-before from the memory_order arguments in the source; the payload is plain "
            "memory touched only inside granted sections, so a race report whose address is a payload word "
            "means two conflicting sections were not ordered.",
            "TSan's HB model on the interleavings that occurred; fences not modelled; x86 only", "DESIGN.md §4 C08"),
    "C09": ("lock_stress+lock_seq", "ghost version monitor + exact sequential version model",
            "Every X grant's reported version, every version seen under S/SIX holds and the final version are "
            "compared with the version the monitor knows was published last; arbitrary 32-bit SetVersion values "
            "including wrap-around are exercised.",
            "needs exclusion (C01)", "DESIGN.md §4 C09"),
    "C10": ("lock_stress+lock_seq", "ghost registry with conversion continuity + value-stability monitor",
            "The converting thread's grant stays registered across UpgradeToX/DowngradeToSIX, so any SIX/X grant "
            "obtained by another thread in between conflicts in the ghost registry; values read under SIX must "
            "be unchanged after the upgrade returns and values written under X must survive the downgraded SIX.",
            "schedules sampled", "DESIGN.md §4 C10"),
    "C11": ("lock_stress+lock_seq", "arrival-ticket FIFO monitor on MCSLock",
            "Arrival (first modification of the lock word, stamped from the hook) and invocation tickets give "
            "certainly-ordered pairs; a conflicting request that was invoked after another one had arrived and "
            "is granted while the earlier one still waits is an overtaking witness.",
            "pairs whose arrival order is not certain are not judged", "DESIGN.md §4 C11"),
    "C12": ("lock_stress (plain + ASan builds)", "allocation accounting by operator new/delete interposition + ASan "
            "with node poisoning",
            "Every queue node allocated inside a lock operation is tracked; after all threads exited none may be "
            "live and the peak must stay below threads + outstanding requests; in the ASan build nodes are "
            "poisoned while they sit in a thread's cache so any touch after recycling or free is reported.",
            "stale access after a node was re-taken from the cache is only visible through its consequences",
            "DESIGN.md §4 C12"),
    "C13": ("lock_stress+lock_seq", "grant-id snapshot + sandwich-counter monitor around PrepareRead",
            "Owning results are registered as S grants (exclusion, VerifyVersion always true, no grant present "
            "throughout the call), non-owning results are judged like optimistic guards; PrepareRead returning "
            "while an exclusive section spans the whole call is a violation.",
            "schedules sampled", "DESIGN.md §4 C13"),
}

CHECKS.update({
    "C06": ("zipf_mon (ASan+UBSan build)", "inverse-CDF bracket oracle with scripted engine words on/around every "
            "probed CDF breakpoint, sanitizers fatal",
            "Every draw is judged against GetCDF using the variate recomputed from a copy of the engine; engine "
            "words are placed exactly on, just below and just above breakpoints for four integer types, bin counts "
            "on both sides of the 100-bin switch, near-limit [min,max] placements and skews 0..1100.",
            "inputs sampled from dense finite sets; admissible = n and n+1 representable", "DESIGN.md §4 C06"),
    "C18": ("zipf_mon", "long-double reference model of the Zipf CDF; approximate vs exact class comparison",
            "Every CDF value of the exact class is compared with a long-double reference (tolerance 4*n*eps), "
            "monotonicity and last==1 are checked; the approximate class is compared with the exact class at every "
            "bin for all n<=110, a dense set of n in [1000,1210] and larger n on a fine skew grid.",
            "inputs sampled; bins of distributions above 2*10^5 bins are not all compared", "DESIGN.md §4 C18"),
    "C19": ("zipf_mon (plain + TSan builds)", "sequence-equality oracle (twins, copies, moves, shared const generator) + "
            "ThreadSanitizer on the shared generator",
            "Sequences of equal-parameter twins, second passes, copies, moved generators and of threads sharing one "
            "const generator are compared element-wise with a reference sequence; constructors with max<min must "
            "throw; TSan reports any data race on the shared generator.",
            "parameters, seeds and lengths sampled", "DESIGN.md §4 C19"),
})

CHECKS.update({
    "C04": ("thr_mon", "guard registry snapshots around every ForwardGlobalEpoch under thread churn on reused IDs",
            "Guards (unique ids, epoch as reported) are registered after creation and unregistered before destruction; "
            "every guard present in the snapshots taken before and after a forward must appear in the list published "
            "for the new epoch and GetMinEpoch must not exceed it; worker threads exit and are replaced at once, the "
            "replacement being steered onto the ID that is being vacated while the exit path is delayed.",
            "capacities and schedules sampled; 'completely created' = CreateEpochGuard returned and the monitor "
            "registered it with a seq_cst store", "DESIGN.md §4 C04"),
    "C05": ("thr_mon", "ghost owner table over thread churn with forced probe collisions, start/exit histories (mode=handoff) and a "
            "70000-ID build (mode=bigcap, fork probe)",
            "Every thread checks range and stability of its ID and claims a ghost owner slot that must be empty; the "
            "slot is cleared as the last action of user code, so a clash is two running threads with equal IDs.",
            "capacities 1,2,3,8 (quick) / +5,16,64 (thorough)", "DESIGN.md §4 C05"),
    "C14": ("thr_mon", "structural progress watchdog over waves of exactly N holders, oversubscription, churn, and random start/exit "
            "histories with an exact expectation after every step (mode=handoff, signal and trap-flag stalls)",
            "After all threads of a step are joined, a wave of exactly N simultaneous holders must complete; "
            "oversubscribed starts must all obtain an ID as holders exit; a claimer spinning for the horizon while "
            "IDs should be free is a hang witness.",
            "'as soon as' = within the watchdog horizon", "DESIGN.md §4 C14"),
    "C15": ("thr_mon", "heartbeat history monitor with the exit path delayed between its steps and single-stepped with the CPU trap "
            "flag (stalls at single instruction boundaries)",
            "Each new owner of an ID checks, before doing anything else, that every heartbeat recorded for earlier "
            "owners of that ID is expired; running threads' heartbeats are checked unexpired by other threads; after "
            "join every heartbeat must be expired.",
            "schedules sampled; the exit window is widened by injected delays", "DESIGN.md §4 C15"),
    "C16": ("thr_mon", "coordinator/worker monitors of epoch values + quiescent-forward oracle",
            "The coordinator checks +1 per forward from the initial epoch, workers check GetMinEpoch <= later "
            "GetCurrentEpoch and monotonicity; at quiescent points (all guards destroyed, workers parked) one "
            "complete forward must publish exactly {cur, cur-1} and GetMinEpoch == cur-1.",
            "hundreds of thousands of forwards across hundreds of 256-epoch boundaries, sampled", "DESIGN.md §4 C16"),
    "C17": ("thr_mon (plain + ASan builds)", "list-stability monitor with stalls injected between every two steps of "
            "GetProtectedEpochs, symptoms keyed by observed history class",
            "Every returned list is copied, checked (strictly descending, first == guard epoch, predecessor present) "
            "and compared again after the guard was held across forwards; crashes, exceptions and ASan reports on "
            "list memory are violations too. Known findings exist for two stall positions (see DESIGN.md §5).",
            "schedules sampled", "DESIGN.md §4 C17"),
    "C20": ("thr_mon (plain + ASan/LSan builds)", "sequential reference model of the protected-epoch list + "
            "allocation accounting of list nodes",
            "Lock-step histories: after every forward the published list must equal sort_desc(unique({new, prev} ∪ "
            "pinned)) and GetMinEpoch its last element; live over-aligned allocations (= list nodes) must stay "
            "within distinct 256-ranges + 2 and return to the baseline after ~EpochManager (LSan as second oracle).",
            "histories sampled (thousands of epochs, long pins)", "DESIGN.md §4 C20"),
})

PENDING = {
}

NOT_APPLICABLE = []


def main():
    props = [json.loads(l)["id"] for l in open(os.path.join(VERIF, "properties.jsonl"))]
    repo_commits = subprocess.run(["git", "-C", "/repo", "log", "--format=%H %s"], capture_output=True,
                                  text=True).stdout.strip().splitlines()
    hook_commits = [l.split()[0] for l in repo_commits if "verif hooks" in l]
    checks = []
    for pid in props:
        if pid not in CHECKS:
            continue
        eng, tech, text, note, ref = CHECKS[pid]
        checks.append({
            "property_id": pid,
            "quick_cmd": "./check %s --tier quick" % pid,
            "thorough_cmd": "./check %s --tier thorough" % pid,
            "evidence_file": "evidence/%s.json" % pid,
            "replay_cmd_template": "./check replay {path}",
            "engine": eng,
            "level_claimed": {"category": "exploration", "text": text, "design_ref": ref},
            "level_note": note,
            "technique": "runtime monitoring: " + tech,
        })
    na = list(NOT_APPLICABLE)
    for pid in props:
        if pid not in CHECKS and not any(x["property_id"] == pid for x in na):
            na.append({"property_id": pid,
                       "reason": PENDING.get(pid, "monitor not built yet (build phase in progress); not claimed "
                                                  "until its check exists")})
    m = {
        "version": 1,
        "setup_cmd": "./check setup",
        "hooks": {
            "guard": "DBGROUP_CPP_UTILITY_VERIF",
            "enable": "checks compile /repo/src/**.cpp themselves (no CMake) with -DDBGROUP_CPP_UTILITY_VERIF and "
                      "link them with the harness, which implements dbgroup::verif::Point/ProbeStart",
            "baseline_off_cmd": "cmake --build /repo/_build && ctest --test-dir /repo/_build -j8 --timeout 900",
            "source_commits": hook_commits,
            "add_only": True,
        },
        "engines": [
            {"name": "thr_mon", "path": "harness/thread/thr_mon.cpp",
             "serves_properties": ["C04", "C05", "C14", "C15", "C16", "C17", "C20"],
             "kind_free_text": "E3: IDManager / EpochManager monitors, built per capacity DBGROUP_MAX_THREAD_NUM"},
            {"name": "zipf_mon", "path": "harness/zipf/zipf_mon.cpp", "serves_properties": ["C06", "C18", "C19"],
             "kind_free_text": "E4: reference-model monitor over inputs of the Zipf generators"},
            {"name": "lock_stress", "path": "harness/lock/lock_stress.cpp",
             "serves_properties": ["C01", "C02", "C03", "C07", "C08", "C09", "C10", "C11", "C12", "C13"],
             "kind_free_text": "E2: concurrent chaos workloads on the three lock classes with ghost monitors; "
                               "plain, TSan and ASan builds"},
        ],
        "checks": checks,
        "notes": "All checks are runtime monitors over executions of the real code built from /repo's working "
                 "tree with the hooks on. A check reports every violation it observes, tagged with the property "
                 "the violated oracle belongs to.",
        "not_applicable": na,
    }
    with open(os.path.join(VERIF, "MANIFEST.json"), "w") as fh:
        json.dump(m, fh, indent=1)
    print("MANIFEST.json: %d checks, %d not claimed" % (len(checks), len(na)))


if __name__ == "__main__":
    main()
