#!/usr/bin/env python3
"""Re-run the checks against every confirmed breaking change kept under /verif/seeded.

usage: vcheck/seeded_regress.py [--tier quick] [--seed N] [id ...]

For each seeded change: apply seeded/<id>/patch.diff to a scratch git worktree of /repo (created under /tmp and removed
at the end; /repo itself is never touched; meta.json may name a "base_commit" when the change was written against the
tree before a later "fix:" commit rewrote the same lines), run the check of the target property with VERIF_REPO=<worktree> and, when
that one stays silent, the other checks recorded in meta.json as having caught it.  Writes seeded/REGRESSION.json.
Exit 0 when every change is detected by at least one check, 1 otherwise.
"""
import json
import os
import re
import subprocess
import sys
import time

ROOT = os.path.dirname(os.path.dirname(os.path.abspath(__file__)))
REPO = "/repo"


def sh(cmd, cwd=None, env=None, timeout=None):
    return subprocess.run(cmd, shell=True, cwd=cwd, env=env, capture_output=True, text=True, timeout=timeout)


def run_check(wt, prop, tier, seed):
    env = dict(os.environ, VERIF_REPO=wt, VERIF_SEED=str(seed))
    t0 = time.time()
    try:
        r = sh("./check %s --tier %s" % (prop, tier), cwd=ROOT, env=env, timeout=3600)
        rc, out = r.returncode, r.stdout + r.stderr
    except subprocess.TimeoutExpired:
        rc, out = 2, "TIMEOUT"
    viol = []
    lines = out.splitlines()
    for i, l in enumerate(lines):
        m = re.match(r"VIOLATION property=(C\d\d)", l)
        if m:
            key = lines[i + 1].replace("  key: ", "").strip() if i + 1 < len(lines) else ""
            viol.append("%s [%s]" % (m.group(1), key[:120]))
    return {"exit": rc, "violations": viol[:12], "seconds": round(time.time() - t0, 1)}


def main():
    args = sys.argv[1:]
    tier, seed = "quick", 1
    ids = []
    while args:
        a = args.pop(0)
        if a == "--tier":
            tier = args.pop(0)
        elif a == "--seed":
            seed = int(args.pop(0))
        else:
            ids.append(a)
    sdir = os.path.join(ROOT, "seeded")
    if not ids:
        ids = sorted(d for d in os.listdir(sdir) if os.path.exists(os.path.join(sdir, d, "patch.diff")))
    wt = "/tmp/vseed-%d" % os.getpid()
    r = sh("git -C %s worktree add --detach %s HEAD" % (REPO, wt))
    if r.returncode != 0:
        print(r.stderr)
        return 2
    results = {}
    missed = []
    head = sh("git -C %s rev-parse HEAD" % REPO).stdout.strip()
    try:
        for sid in ids:
            meta = json.load(open(os.path.join(sdir, sid, "meta.json")))
            target = meta["property"]
            # (reset --hard: a three-way apply also stages what it merged)
            base = meta.get("base_commit", "HEAD")
            sh("git reset -q --hard && git clean -fdq src include && git checkout -q --detach %s" % (head if base == "HEAD" else base), cwd=wt)
            ap = sh("git apply %s" % os.path.join(sdir, sid, "patch.diff"), cwd=wt)
            if ap.returncode != 0:
                ap = sh("git apply -3 %s" % os.path.join(sdir, sid, "patch.diff"), cwd=wt)
            if ap.returncode != 0:
                results[sid] = {"target": target, "status": "patch-does-not-apply", "stderr": ap.stderr[:300]}
                missed.append(sid)
                print("%-10s PATCH DOES NOT APPLY" % sid, flush=True)
                continue
            order = [target] + [c for c in meta.get("detected_by_checks", []) if c != target]
            if meta.get("thorough_only"):
                res = {target: run_check(wt, target, "thorough", seed)}
            else:
                res = {}
                for c in order:
                    res[c] = run_check(wt, c, tier, seed)
                    if res[c]["exit"] == 1:
                        break
            hit = [c for c, v in res.items() if v["exit"] == 1]
            results[sid] = {"target": target, "status": "detected" if hit else "MISSED", "checks": res}
            if not hit:
                missed.append(sid)
            print("%-10s %-8s %s" % (sid, "detected" if hit else "MISSED",
                                      "; ".join("%s: exit %d %s" % (c, v["exit"], v["violations"][:2]) for c, v in res.items())), flush=True)
    finally:
        sh("git -C %s worktree remove --force %s" % (REPO, wt))
        sh("git -C %s worktree prune" % REPO)
    vhead = sh("git -C %s rev-parse HEAD" % ROOT).stdout.strip()
    out = {"repo_commit": head, "verif_commit_at_start": vhead, "tier": tier, "seed": seed, "changes": len(ids),
           "detected": len(ids) - len(missed), "missed": missed, "results": results}
    rp = os.path.join(sdir, "REGRESSION.json")
    if len(ids) <= 20 and os.path.exists(rp):
        # a partial re-run updates the entries it covers
        old = json.load(open(rp))
        old["results"].update(results)
        old["missed"] = sorted(k for k, v in old["results"].items() if v["status"] != "detected")
        old["changes"] = len(old["results"])
        old["detected"] = old["changes"] - len(old["missed"])
        old["repo_commit"] = head
        old["verif_commit_at_last_update"] = vhead
        out = old
    json.dump(out, open(rp, "w"), indent=1)
    print("detected %d of %d; missed: %s" % (len(ids) - len(missed), len(ids), missed))
    return 1 if missed else 0


if __name__ == "__main__":
    sys.exit(main())
