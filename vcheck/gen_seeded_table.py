#!/usr/bin/env python3
"""Rewrites the table of seeded breaking changes in DESIGN.md from seeded/*/meta.json."""
import glob, json, os, re
VERIF = os.path.dirname(os.path.dirname(os.path.abspath(__file__)))
rows = ["| id | what was changed (one line) | needs, in order to manifest | caught by (check: first oracle keys of the target property) | other properties' oracles that also fired |",
        "|---|---|---|---|---|"]
def short(s, n):
    s = " ".join(s.split())
    return (s[:n] + "...") if len(s) > n else s
for f in sorted(glob.glob(os.path.join(VERIF, "seeded", "*", "meta.json"))):
    d = json.load(open(f))
    res = d["checks_run_against_it"]["results"]
    tgt = d["property"]
    caught = []
    for chk, v in res.items():
        keys = []
        for x in v["violations"]:
            if x.startswith(tgt + " "):
                k = x.split("[", 1)[1].rstrip("]") if "[" in x else x
                if k not in keys:
                    keys.append(k)
        if keys:
            caught.append("%s: %s" % (chk, "; ".join("`%s`" % k for k in keys[:2])))
    others = sorted({x.split(" ")[0] for v in res.values() for x in v["violations"] if x[:1] == "C" and not x.startswith(tgt + " ")})
    note = d.get("note", "")
    if not caught:
        caught = [note or "not caught by the quick tier"]
    rows.append("| %s | %s | %s | %s | %s |" % (d["id"], short(d["summary"], 170).replace("|", "/"), short(d["needs_to_manifest"], 170).replace("|", "/"),
                                            "<br>".join(caught).replace("|", "/"), ", ".join(others) or "-"))
table = "\n".join(rows)
p = os.path.join(VERIF, "DESIGN.md")
s = open(p).read()
b, e = "<!-- SEEDED-TABLE-BEGIN -->", "<!-- SEEDED-TABLE-END -->"
if b in s:
    s = s[:s.index(b) + len(b)] + "\n" + table + "\n" + s[s.index(e):]
    open(p, "w").write(s)
    print("table updated: %d rows" % (len(rows) - 2))
else:
    print(table)
