#!/bin/bash
# usage: vcheck/soak.sh <tier> <seed>...   runs every check for every seed, prints one line per run
tier=$1; shift
cd "$(dirname "$0")/.."
for seed in "$@"; do
  for p in C01 C02 C03 C04 C05 C06 C07 C08 C09 C10 C11 C12 C13 C14 C15 C16 C17 C18 C19 C20; do
    out=$(VERIF_SEED=$seed ./check $p --tier $tier 2>&1 | grep -E "^(OK|VIOLATION|INCONCLUSIVE|  key)" | tr '\n' ' ' | cut -c1-400)
    echo "seed=$seed $out"
  done
done
