#!/usr/bin/env python3
"""Confirm a sub-agent's breaking change and keep it under /verif/seeded/<id>/.

usage: vcheck/ingest_seed.py <id> <property> <scratch worktree with deliver/{patch.diff,demo.cpp,run_demo.sh,notes.txt}>

Confirms in the scratch worktree (never in /repo): the demonstration passes on the unchanged sources, the patch applies,
the library builds and the existing tests pass with it, the demonstration fails with it.  Then runs the target property's
quick check with VERIF_REPO=<worktree> and writes meta.json.  Exit 0 kept, 1 rejected.
"""
import json, os, re, shutil, subprocess, sys

ROOT = os.path.dirname(os.path.dirname(os.path.abspath(__file__)))


def sh(cmd, cwd=None, env=None, timeout=3600):
    try:
        r = subprocess.run(cmd, shell=True, cwd=cwd, env=env, capture_output=True, text=True, timeout=timeout)
        return r.returncode, r.stdout + r.stderr
    except subprocess.TimeoutExpired:
        return 124, "TIMEOUT"


def main():
    sid, prop, wt = sys.argv[1:4]
    dl = os.path.join(wt, "deliver")
    keep = "/tmp/ingest-%s" % sid
    shutil.rmtree(keep, ignore_errors=True)
    shutil.copytree(dl, keep)
    sh("git reset -q --hard && git clean -fdq src include test", cwd=wt)
    shutil.rmtree(dl, ignore_errors=True)
    shutil.copytree(keep, dl)
    rc0, out0 = sh("bash deliver/run_demo.sh", cwd=wt, timeout=900)
    ap, apo = sh("git apply deliver/patch.diff", cwd=wt)
    if ap != 0:
        print("REJECT: patch does not apply", apo[:300]); return 1
    changed = sh("git diff --name-only", cwd=wt)[1].split()
    b, bo = sh("cmake -G Ninja -B _build -DCMAKE_BUILD_TYPE=RelWithDebInfo -DCPP_UTILITY_BUILD_TESTS=ON -DFETCHCONTENT_SOURCE_DIR_GOOGLETEST=/usr/src/googletest >/dev/null && cmake --build _build -j12", cwd=wt)
    if b != 0:
        print("REJECT: build fails", bo[-400:]); return 1
    t, to = sh("ctest --test-dir _build -j8 --timeout 900 -E mcs", cwd=wt)
    tm, tmo = sh("ctest --test-dir _build -j8 --timeout 120 -R mcs", cwd=wt)
    rc1, out1 = sh("bash deliver/run_demo.sh", cwd=wt, timeout=900)
    print("demo unchanged: exit %d; tests with patch: exit %d (mcs: %d); demo with patch: exit %d" % (rc0, t, tm, rc1))
    if rc0 != 0 or t != 0 or rc1 == 0:
        print("REJECT"); print(out0[-300:]); print(to[-300:]); print(out1[-300:]); return 1
    env = dict(os.environ, VERIF_REPO=wt, VERIF_SEED="1")
    c, co = sh("./check %s --tier quick" % prop, cwd=ROOT, env=env)
    viol = []
    lines = co.splitlines()
    for i, l in enumerate(lines):
        m = re.match(r"VIOLATION property=(C\d\d)", l)
        if m:
            key = lines[i + 1].replace("  key: ", "").strip() if i + 1 < len(lines) else ""
            v = "%s [%s]" % (m.group(1), key[:120])
            if v not in viol:
                viol.append(v)
    notes = open(os.path.join(keep, "notes.txt")).read() if os.path.exists(os.path.join(keep, "notes.txt")) else ""
    meta = {
        "id": sid, "property": prop,
        "summary": " ".join(notes.split())[:900],
        "needs_to_manifest": " ".join(notes.split())[:900],
        "files": changed,
        "origin": "written by an independent sub-agent that was given only the text of the property and a scratch git worktree of /repo (nothing from /verif)",
        "confirmed_by_me": {"how": "vcheck/ingest_seed.py in the scratch worktree: run_demo.sh on unchanged sources (exit %d), git apply patch.diff, cmake --build + ctest -E mcs (exit %d; mcs tests, flaky in the baseline: exit %d), run_demo.sh with the patch (exit %d)" % (rc0, t, tm, rc1),
                            "tests_pass_with_patch": True, "demo_fails_with_patch": True, "demo_passes_without_patch": True},
        "checks_run_against_it": {"how": "VERIF_REPO=<scratch worktree with the patch applied> ./check <ID> (quick tier, seed 1)",
                                  "results": {prop: {"verdict": "VIOLATION" if c == 1 else "exit %d" % c, "violations": viol[:12]}}},
        "detected_by_target_property_oracle": any(v.startswith(prop + " ") for v in viol),
        "detected_by_checks": [prop] if c == 1 else [],
    }
    dst = os.path.join(ROOT, "seeded", sid)
    shutil.rmtree(dst, ignore_errors=True)
    shutil.copytree(keep, dst)
    json.dump(meta, open(os.path.join(dst, "meta.json"), "w"), indent=1)
    shutil.rmtree(keep, ignore_errors=True)
    print("KEPT %s: check %s exit %d %s" % (sid, prop, c, viol[:4]))
    return 0


if __name__ == "__main__":
    sys.exit(main())
