"""Per-property plans: which workloads run, which floors apply, how evidence is described."""
import random

import runner
from runner import Job

CLASSES = ["pess", "opt", "mcs"]


QUICK_CAPS = [1, 2, 3, 8]
THOROUGH_CAPS = [1, 2, 3, 5, 8, 16, 64, 100]
BIG_CAP = 100  # more than 64 IDs (a second 64-bit word for anything that keeps per-ID bitmaps)
HUGE_CAP = 70000  # more than 2^16 IDs


def all_builds():
    b = ["lock_stress.plain", "lock_stress.tsan", "lock_stress.asan", "lock_seq.plain",
         "lock_stress.plain.spinalt", "lock_seq.plain.spinalt",
         "zipf_mon.plain", "zipf_mon.asanfatal", "zipf_mon.tsan"]
    b += ["thr_mon.plain.n%d" % n for n in QUICK_CAPS + [BIG_CAP, HUGE_CAP]]
    b += ["thr_mon.asan.n%d" % n for n in (3, 8)]
    return b


# ----------------------------------------------------------------------------------------
# lock_stress job generation
# ----------------------------------------------------------------------------------------
def lock_jobs(rng, classes, profiles, runs_per_class, flavor="plain", ops_total=24000, mcs_ops_total=6000,
              threads_choices=(2, 3, 4, 6, 8, 12, 16), locks_choices=(1, 1, 2, 3), chaos_choices=(1, 2, 2, 3),
              hold_choices=(0, 500, 2000, 20000), hang_s=20, extra=None, variant="", timeout=600):
    jobs = []
    for cls in classes:
        profs = [p for p in profiles if not (cls != "opt" and p in ("optimistic", "prepare"))]
        for i in range(runs_per_class):
            prof = profs[i % len(profs)]
            threads = rng.choice(threads_choices)
            total = mcs_ops_total if cls == "mcs" else ops_total
            args = {
                "cls": cls, "threads": threads, "locks": rng.choice(locks_choices),
                "ops": max(50, total // threads), "seed": rng.randrange(1, 2**31), "profile": prof,
                "chaos": rng.choice(chaos_choices), "hold": rng.choice(hold_choices), "hang_s": hang_s,
            }
            if flavor == "plain" and i % 3 == 2:
                args["preempt"] = 1  # SIGUSR1-based stalls at arbitrary instructions
            if i % 8 == 4:
                args["edge"] = 1  # probe the edge of the shared counter (2^14, 2^15 - 1 grants) before the workload
            if flavor == "plain" and i % 3 == 0 and args["chaos"] != 0:
                args["step"] = 1  # trap-flag stepper: stalls at single instruction boundaries inside library calls
            if cls == "opt" and args["locks"] >= 2 and i % 3 == 1:
                args["coupling"] = 1  # optimistic lock coupling (verify lock i while holding a grant on lock j > i)
            if extra:
                args.update(extra)
            build = "lock_stress.%s%s" % (flavor, ("." + variant) if variant else "")
            rules = None
            if flavor == "tsanclang":
                rules = [(r"WARNING: ThreadSanitizer: data race(?:(?!==================)[\s\S])*?Location is global",
                          "C08", "%s:data-race-on-lock-protected-payload" % cls)]
            jobs.append(Job(build, args, timeout=timeout, tag="%s/%s" % (cls, prof), cost=min(threads, 8),
                            stderr_rules=rules))
    return jobs


def fast_jobs(rng, classes, runs_per_class, flavor="plain", variant=""):
    """Full-speed runs: no injected delay, no hold time, many operations (races that need sheer repetition)."""
    return lock_jobs(rng, classes, ["readers", "sx", "ssix", "mixed", "convert"], runs_per_class, flavor=flavor,
                     ops_total=400000, mcs_ops_total=60000, threads_choices=(2, 3, 4, 6, 8), locks_choices=(1, 1, 2),
                     chaos_choices=(0,), hold_choices=(0,), variant=variant)


def seq_jobs(rng, classes, runs_per_class, programs=300, flavor="plain", hang_s=15, timeout=900, variant=""):
    jobs = []
    for cls in classes:
        for i in range(runs_per_class):
            args = {"cls": cls, "seed": rng.randrange(1, 2**31), "programs": programs, "chaos": i % 3,
                    "steps": rng.choice([8, 14, 14, 24]), "hang_s": hang_s}
            build = "lock_seq.%s%s" % (flavor, ("." + variant) if variant else "")
            jobs.append(Job(build, args, timeout=timeout, tag="seq/%s" % cls, cost=3))
    return jobs


def spinalt_jobs(rng, classes, profiles, runs, seq_runs=1):
    """the second spin configuration (CPP_UTILITY_SPINLOCK_RETRY_NUM=0, CPP_UTILITY_BACKOFF_TIME=1)"""
    jobs = lock_jobs(rng, classes, profiles, runs, variant="spinalt", chaos_choices=(2, 3))
    jobs += seq_jobs(rng, classes, seq_runs, variant="spinalt")
    return jobs


SEQ_RULE = ("; in addition the controlled engine lock_seq runs random programs (8-48 operations, 2-4 virtual threads, "
            "1-2 locks) over the complete guard API one operation at a time and compares every completed operation "
            "with an executable model (ownership of every guard slot, lock-mode holders with acquisition tickets, "
            "version timeline); its distinct cases are (operation kind, guard/lock state before it) signatures")

LOCK_RULE = ("executions are short randomized multi-thread runs of the real lock code (profile, thread count, "
             "lock count, hold times, seed and chaos plan drawn from VERIF_SEED); evaluations = completed client "
             "operations; a case is distinct and non-trivial when it is a distinct signature (lock class, API, "
             "granted mode, ghost holders registered at the moment of the grant) or (optimistic check kind, "
             "outcome, whether the window overlapped an exclusive section) observed by the monitor, or a distinct "
             "(injected-delay point, operation kind) pair during whose delay operations of other threads completed")

LOCK_ASSUME = [
    "a third of the plain runs single-step one library call in sixteen with the CPU trap flag and stall the thread "
    "3-80 us after a random number (1-180) of instructions; another third sends SIGUSR1 stalls at random instants",
    "schedules are sampled (stress + injected delays at the hook points), not enumerated",
    "ghost facts are recorded inside the real hold interval (after the acquiring call returned, before the "
    "releasing call is made), so a ghost conflict implies a real overlap; overlaps shorter than the "
    "registration window can be missed",
    "hang = no completed operation for hang_s seconds while every unfinished thread is inside a library call "
    "and the process is consuming CPU",
]


def _mk(prop, tier, seed, t0, jobs, floors, rule=LOCK_RULE, assumptions=LOCK_ASSUME, extra_cov=None):
    results = runner.run_jobs(jobs)
    out = runner.aggregate(results)
    return runner.finish(prop, tier, seed, out, t0, rule, floors, extra_cov=extra_cov, assumptions=assumptions)


def spec_C01(prop, tier, seed, t0):
    rng = random.Random(seed * 7919 + 1)
    profs = ["mixed", "readers", "writers", "convert", "ssix", "random", "optimistic", "prepare", "sx"]
    if tier == "quick":
        jobs = lock_jobs(rng, CLASSES, profs, 24)
        jobs += seq_jobs(rng, CLASSES, 5)
        jobs += spinalt_jobs(rng, CLASSES, profs, 4)
        jobs += fast_jobs(rng, CLASSES, 3)
    else:
        jobs = lock_jobs(rng, CLASSES, profs, 150, ops_total=40000, mcs_ops_total=10000)
        jobs += fast_jobs(rng, CLASSES, 12)
        jobs += seq_jobs(rng, CLASSES, 40, programs=600)
        jobs += lock_jobs(rng, CLASSES, profs, 40, variant="spinalt")
        jobs += lock_jobs(rng, CLASSES, profs, 30, flavor="tsan", ops_total=8000, mcs_ops_total=3000)
        jobs += lock_jobs(rng, CLASSES, profs, 30, flavor="asan", ops_total=12000, mcs_ops_total=4000)
    return _mk(prop, tier, seed, t0, jobs, {"grants_sharing_with_other_holders": 1000, "distinct_nontrivial": 40},
               rule=LOCK_RULE + SEQ_RULE)


def spec_C07(prop, tier, seed, t0):
    rng = random.Random(seed * 7919 + 7)
    profs = ["mixed", "convert", "random", "optimistic", "prepare", "readers", "ssix", "sx"]
    n = 10 if tier == "quick" else 120
    jobs = seq_jobs(rng, CLASSES, 8 if tier == "quick" else 100, programs=300 if tier == "quick" else 800)
    jobs += lock_jobs(rng, CLASSES, profs, n)
    jobs += fast_jobs(rng, CLASSES, 3 if tier == "quick" else 12)
    if tier != "quick":
        jobs += seq_jobs(rng, CLASSES, 20, programs=300, flavor="asan")
    return _mk(prop, tier, seed, t0, jobs, {"guard_ownership_checks": 100000, "programs": 4000, "op_MoveCtor": 3000,
                                           "op_MoveAssign": 2000, "op_Upgrade": 1000, "op_Downgrade": 1000},
               rule=LOCK_RULE + SEQ_RULE)


def spec_C08(prop, tier, seed, t0):
    rng = random.Random(seed * 7919 + 8)
    profs = ["mixed", "readers", "writers", "convert", "ssix", "sx", "optimistic", "prepare", "random"]
    n = 40 if tier == "quick" else 300
    kw = dict(flavor="tsan", ops_total=6000, mcs_ops_total=3000, threads_choices=(2, 3, 4, 6, 8),
              hold_choices=(0, 500, 2000))
    jobs = lock_jobs(rng, CLASSES, profs, n, **kw)
    # republishing SetVersion (the property quantifies over every client program)
    jobs += lock_jobs(rng, ["opt"], ["optimistic", "prepare", "writers", "mixed"], max(4, n // 3),
                      extra={"arbver": 1}, **kw)
    if tier != "quick":
        kw["flavor"] = "tsanclang"
        jobs += lock_jobs(rng, CLASSES, profs, 120, **kw)
    rule = LOCK_RULE + ("; the deciding oracle is ThreadSanitizer's happens-before analysis of plain payload "
                        "words that are touched only inside granted critical sections")
    return _mk(prop, tier, seed, t0, jobs, {"exclusive_sections": 2000, "distinct_nontrivial": 40}, rule=rule,
               assumptions=LOCK_ASSUME + ["TSan derives happens-before from the memory_order arguments in the "
                                          "source; atomic_thread_fence is not modelled (not used by granted "
                                          "sections); reports whose racing address is not a payload word are "
                                          "recorded as observations only"])


def spec_C02(prop, tier, seed, t0):
    rng = random.Random(seed * 7919 + 2)
    profs = ["mixed", "xonly", "convert", "sx", "writers", "ssix", "random", "readers", "optimistic", "prepare"]
    if tier == "quick":
        jobs = lock_jobs(rng, CLASSES, profs, 10, chaos_choices=(2, 3, 3))
        jobs += lock_jobs(rng, ["mcs"], ["xonly", "mixed", "convert", "sx"], 8, threads_choices=(16, 24),
                          mcs_ops_total=5000, chaos_choices=(2, 3))
        jobs += seq_jobs(rng, CLASSES, 3)
        jobs += spinalt_jobs(rng, CLASSES, profs, 4)
        jobs += fast_jobs(rng, CLASSES, 3)
    else:
        jobs = seq_jobs(rng, CLASSES, 40, programs=600)
        jobs += fast_jobs(rng, CLASSES, 12)
        jobs += lock_jobs(rng, CLASSES, profs, 200, chaos_choices=(1, 2, 3, 3), ops_total=40000, mcs_ops_total=10000)
        jobs += lock_jobs(rng, ["mcs"], ["xonly", "mixed", "convert", "sx"], 100, threads_choices=(16, 24),
                          mcs_ops_total=8000, chaos_choices=(2, 3))
        jobs += lock_jobs(rng, CLASSES, profs, 50, variant="spinalt", chaos_choices=(2, 3))
    return _mk(prop, tier, seed, t0, jobs, {"ops_total": 100000, "distinct_nontrivial": 40, "programs": 1000},
               rule=LOCK_RULE + SEQ_RULE)


def spec_C03(prop, tier, seed, t0):
    rng = random.Random(seed * 7919 + 3)
    profs = ["optimistic", "prepare", "mixed", "writers", "random"]
    n = 60 if tier == "quick" else 600
    jobs = lock_jobs(rng, ["opt"], profs, n, hold_choices=(0, 500, 2000, 20000), chaos_choices=(2, 3, 3),
                     ops_total=30000)
    jobs += seq_jobs(rng, ["opt"], 6 if tier == "quick" else 80, programs=300 if tier == "quick" else 600)
    if tier == "quick":
        jobs += spinalt_jobs(rng, ["opt"], profs, 8, seq_runs=2)
    else:
        jobs += lock_jobs(rng, ["opt"], profs, 100, variant="spinalt", chaos_choices=(2, 3))
        jobs += seq_jobs(rng, ["opt"], 20, programs=400, variant="spinalt")
        jobs += lock_jobs(rng, ["opt"], profs, 60, flavor="asan", ops_total=10000)
    return _mk(prop, tier, seed, t0, jobs,
               {"opt_checks_ok": 5000, "opt_checks_failed": 500, "opt_windows_overlapping_an_exclusive_section": 200,
                "op_VerifyVersion": 500, "op_TryLock": 300}, rule=LOCK_RULE + SEQ_RULE)


def spec_C09(prop, tier, seed, t0):
    rng = random.Random(seed * 7919 + 9)
    profs = ["writers", "mixed", "convert", "optimistic", "random"]
    n = 30 if tier == "quick" else 300
    jobs = lock_jobs(rng, ["opt"], profs, n)
    jobs += lock_jobs(rng, ["opt"], profs, n, extra={"arbver": 1})
    jobs += seq_jobs(rng, ["opt"], 10 if tier == "quick" else 100, programs=300 if tier == "quick" else 800)
    return _mk(prop, tier, seed, t0, jobs, {"version_checks_under_shared_hold": 2000, "exclusive_sections": 20000,
                                           "op_SetVersion": 200, "programs": 2000}, rule=LOCK_RULE + SEQ_RULE)


def spec_C10(prop, tier, seed, t0):
    rng = random.Random(seed * 7919 + 10)
    profs = ["convert", "mixed", "random", "ssix"]
    n = 24 if tier == "quick" else 250
    jobs = lock_jobs(rng, CLASSES, profs, n, chaos_choices=(2, 3, 3))
    jobs += seq_jobs(rng, CLASSES, 3 if tier == "quick" else 40, programs=300 if tier == "quick" else 600)
    if tier != "quick":
        jobs += lock_jobs(rng, CLASSES, profs, 50, variant="spinalt", chaos_choices=(2, 3))
    return _mk(prop, tier, seed, t0, jobs, {"upgrades": 5000, "downgrades": 5000, "op_Upgrade": 500, "op_Downgrade": 500},
               rule=LOCK_RULE + SEQ_RULE)


def spec_C11(prop, tier, seed, t0):
    rng = random.Random(seed * 7919 + 11)
    profs = ["mixed", "starve", "sx", "writers", "convert", "ssix", "readers", "random"]
    n = 64 if tier == "quick" else 700
    jobs = lock_jobs(rng, ["mcs"], profs, n, threads_choices=(4, 6, 8, 12, 16), hold_choices=(2000, 20000, 50000),
                     mcs_ops_total=5000, chaos_choices=(1, 2, 3))
    jobs += seq_jobs(rng, ["mcs"], 8 if tier == "quick" else 100, programs=300 if tier == "quick" else 600)
    return _mk(prop, tier, seed, t0, jobs,
               {"mcs_requests_with_arrival_stamp": 20000, "mcs_grants_with_later_conflicting_waiters": 2000,
                "op_Lock(completed-later)": 1000}, rule=LOCK_RULE + SEQ_RULE)


def spec_C12(prop, tier, seed, t0):
    rng = random.Random(seed * 7919 + 12)
    profs = ["mixed", "readers", "sx", "ssix", "convert", "starve", "random", "writers"]
    n = 48 if tier == "quick" else 500
    jobs = lock_jobs(rng, ["mcs"], profs, n, hold_choices=(500, 2000, 20000), locks_choices=(1, 2, 3),
                     mcs_ops_total=6000, chaos_choices=(1, 2, 3))
    jobs += lock_jobs(rng, ["mcs"], profs, n // 2, flavor="asan", hold_choices=(500, 2000, 20000),
                      locks_choices=(1, 2, 3), mcs_ops_total=4000, chaos_choices=(1, 2, 3))
    jobs += fast_jobs(rng, ["mcs"], 6 if tier == "quick" else 20)
    # guard moves, self moves and cross-lock assignments with node accounting (op-level programs)
    jobs += seq_jobs(rng, ["mcs"], 6 if tier == "quick" else 40, programs=300 if tier == "quick" else 600)
    return _mk(prop, tier, seed, t0, jobs, {"mcs_nodes_allocated": 500, "ops_total": 50000, "op_MoveAssign": 500})


def spec_C13(prop, tier, seed, t0):
    rng = random.Random(seed * 7919 + 13)
    profs = ["prepare"]
    n = 60 if tier == "quick" else 600
    jobs = lock_jobs(rng, ["opt"], profs, n, hold_choices=(2000, 20000, 50000), chaos_choices=(2, 3, 3),
                     threads_choices=(3, 4, 6, 8, 12), ops_total=20000)
    jobs += seq_jobs(rng, ["opt"], 6 if tier == "quick" else 80, programs=300 if tier == "quick" else 600)
    if tier == "quick":
        jobs += spinalt_jobs(rng, ["opt"], profs, 8, seq_runs=2)
    else:
        jobs += seq_jobs(rng, ["opt"], 20, programs=400, variant="spinalt")
        jobs += lock_jobs(rng, ["opt"], profs, 120, variant="spinalt", hold_choices=(2000, 20000))
    return _mk(prop, tier, seed, t0, jobs, {"prepare_owning": 500, "prepare_optimistic": 5000, "op_PrepareRead": 200},
               rule=LOCK_RULE + SEQ_RULE)


ZIPF_ASSUME = [
    "inputs are sampled from dense but finite sets (all n <= 300, neighbourhoods of 100/101/1000/1100/10^4, random "
    "n, alpha grid + special values, four integer types); breakpoints of large distributions are sampled",
    "admissible input = max-min+1 and that value + 1 representable in IntType (approximate class: n <= type max - 200)",
    "reference values are computed in long double",
]


def zipf_jobs(mode, seed, scale, flavor="plain", shards=16, abort_prop=None, timeout=1800):
    return [Job("zipf_mon.%s" % flavor, {"mode": mode, "seed": seed, "part": i, "of": shards, "scale": scale},
                timeout=timeout, tag="%s shard %d/%d" % (mode, i, shards), cost=2, abort_prop=abort_prop)
            for i in range(shards)]


def spec_C06(prop, tier, seed, t0):
    scale = 1 if tier == "quick" else 8
    jobs = zipf_jobs("c06", seed, scale, "asanfatal", abort_prop="C06")
    if tier != "quick":
        jobs += zipf_jobs("c06", seed + 1000, 12, "plain")
    rule = ("one evaluation = one call of operator() with a scripted or mt19937_64 engine, judged against GetCDF "
            "with the uniform variate recomputed from a copy of the engine; engine words are placed on, just below "
            "and just above CDF breakpoints (floor(c*2^64) + d*2^j); distinct non-trivial cases = distinct "
            "(class, integer type, bin-count class, skew class, placement of [min,max]) combinations exercised")
    return _mk(prop, tier, seed, t0, jobs, {"draws_u_below_breakpoint": 100000, "draws_u_equal_breakpoint": 100000,
                                           "draws_u_above_breakpoint": 100000, "distinct_nontrivial": 100},
               rule=rule, assumptions=ZIPF_ASSUME + ["built with ASan+UBSan, reports fatal: any report inside "
                                                     "operator()/GetCDF aborts the shard and is a violation"])


def spec_C18(prop, tier, seed, t0):
    scale = 1 if tier == "quick" else 8
    jobs = zipf_jobs("c18", seed, scale, "plain")
    if tier != "quick":
        jobs += zipf_jobs("c18", seed, 1, "asanfatal", abort_prop="C18")
    rule = ("one evaluation = one GetCDF value compared with the long-double reference (exact class) or with the "
            "exact class (approximate class); distinct non-trivial cases = distinct (class, integer type, bin-count "
            "class, skew class) combinations")
    return _mk(prop, tier, seed, t0, jobs, {"cdf_values_checked": 5000000, "approx_pairs_in_bound_domain": 2000,
                                           "distinct_nontrivial": 40}, rule=rule, assumptions=ZIPF_ASSUME)


def spec_C19(prop, tier, seed, t0):
    scale = 2 if tier == "quick" else 40
    jobs = zipf_jobs("c19", seed, scale, "plain")
    jobs += zipf_jobs("c19", seed + 7, max(1, scale // 2), "tsan", shards=8)
    # (ASan+UBSan, reports fatal: a copy that still reads its destroyed source, tables indexed out of range)
    jobs += zipf_jobs("c19", seed + 11, 1 if tier == "quick" else 8, "asanfatal", shards=8, abort_prop="C19")
    rule = ("one evaluation = one draw; for every sampled parameter set the sequences of an equal-parameter twin (also "
            "one built after generators with the same skew and other sizes, by a fresh thread, while other threads "
            "construct other skews, and as the first constructions of the process by six threads at once), a second "
            "pass, copies (also after the source was reassigned or destroyed), moved and re-assigned generators and of "
            "2-6 threads sharing one const generator are compared element-wise with the reference sequence; "
            "constructors with max < min must throw; the TSan build reports any data race on the shared generator, the "
            "ASan+UBSan build any invalid access; distinct = (class, type, n class, thread count)")
    return _mk(prop, tier, seed, t0, jobs, {"sequences_compared": 1500, "rejections_checked": 100,
                                           "distinct_nontrivial": 30}, rule=rule, assumptions=ZIPF_ASSUME)


THR_ASSUME = [
    "capacities are the built ones (quick: 1,2,3,8,100 and 70000 for mode=bigcap; thorough adds 5,16,64), not every "
    "DBGROUP_MAX_THREAD_NUM",
    "schedules are sampled: thread churn, forced probe start positions, injected delays at the hook points, signal "
    "stalls at random instants and trap-flag stalls at single instruction boundaries",
    "ghost ownership / guard registration is recorded inside the real interval (after the call returned, before "
    "the releasing action), so a ghost clash implies a real one",
]

LEAK_RULE = (r"LeakSanitizer: detected memory leaks", "C20", "leak-reported-by-LeakSanitizer")


def thr_jobs(mode, caps, seed, runs_per_cap, scale=1, flavor="plain", extra=None, timeout=900, cost=8, stderr_rules=None):
    jobs = []
    rng = random.Random(seed * 104729 + hash(mode) % 1000)
    for n in caps:
        for i in range(runs_per_cap):
            args = {"mode": mode, "seed": rng.randrange(1, 2**31), "scale": scale}
            if extra:
                args.update(extra(rng, n, i) if callable(extra) else extra)
            jobs.append(Job("thr_mon.%s.n%d" % (flavor, n), args, timeout=timeout, tag="%s N=%d #%d" % (mode, n, i),
                            cost=min(cost, n + 1), stderr_rules=stderr_rules))
    return jobs


ID_RULE = ("one evaluation = one thread lifetime (claim an ID, run, exit) in waves of exactly N simultaneous holders, "
           "oversubscribed starts (N+1..4N threads) and churn with overlapping exit/claim, under forced probe start "
           "patterns (full collision, consecutive, wrap at N-1, random, real hash) and delays injected between the "
           "steps of the claim loop and of the exit path; distinct non-trivial cases = distinct (capacity, slot "
           "claimed) and (capacity, probe pattern) pairs plus (delay point, phase) pairs that overlapped a claim")


def storm_jobs(tier, seed):
    caps = [2, 3, 8] if tier == "quick" else [2, 3, 5, 8, 16]
    # the ID table kept full and over-subscribed by 3N drivers, no injected delays (narrow races in the claim loop)
    jobs = thr_jobs("churnstorm", caps, seed + 17, 4 if tier == "quick" else 10, 2 if tier == "quick" else 8, cost=8,
                    extra=lambda rng, n, i: {"preempt": (i // 2) % 2, "heavy": (i + 1) % 2})
    # N threads released from a spin barrier onto one probe position
    jobs += thr_jobs("storm", caps, seed + 9, 2 if tier == "quick" else 8, 1 if tier == "quick" else 4, cost=4)
    # randomised start/exit histories with an exact expectation after every step (holders = min(N, threads alive))
    # (every second run single-steps claimers and exiting threads and stalls them at one instruction boundary)
    jobs += thr_jobs("handoff", [1, 2, 3, 8] if tier == "quick" else [1, 2, 3, 5, 8, 16, 64, BIG_CAP], seed + 21,
                     4 if tier == "quick" else 8, 1 if tier == "quick" else 3, cost=6,
                     extra=lambda rng, n, i: {"preempt": 1 if i % 4 == 2 else 0, "step": i % 2, "hang_s": 20})
    if tier == "quick":
        # (more than 32 and more than 64 IDs held at the same time: per-ID bitmaps, masks)
        jobs += thr_jobs("handoff", [BIG_CAP], seed + 22, 2, 1, cost=6,
                         extra=lambda rng, n, i: {"preempt": 0, "step": i % 2, "hang_s": 20})
    # a capacity above 2^16 (IDs narrowed to 8 or 16 bits somewhere would collide with the low slots)
    jobs += thr_jobs("bigcap", [HUGE_CAP], seed + 23, 2 if tier == "quick" else 6, 1 if tier == "quick" else 4, cost=4)
    return jobs


STORM_RULE = ("; in addition claim storms without injected delays: mode=churnstorm keeps the ID table full with 3N "
              "drivers that start short-lived workers back to back (checks range, uniqueness, expiry of earlier "
              "owners' heartbeats, progress), mode=storm releases exactly N threads from a spin barrier onto one "
              "probe position, mode=handoff walks through random histories of thread starts and exits fired together "
              "from a spin gate with sub-microsecond skews (holder threads that keep their ID until told to exit, "
              "transient threads that claim and exit at once, table kept nearly full) and requires after every step "
              "that min(N, holder threads alive) threads hold an ID; every second handoff run arms the CPU trap flag in "
              "selected claimers / exiting threads at the probe hook / the first exit hook and stalls them for "
              "3-120 us after a random number (1-220) of single instructions; mode=bigcap (capacity 70000) steers pairs of "
              "threads onto slot s >= 2^k and slot s - 2^k (k = 8, 16) and requires distinct IDs")


def _id_check(prop, tier, seed, t0, caps_q, floors):
    caps = caps_q if tier == "quick" else THOROUGH_CAPS
    runs, scale = (6, 2) if tier == "quick" else (24, 8)
    jobs = thr_jobs("id", caps, seed, runs, scale, extra={"hang_s": 20})
    jobs += storm_jobs(tier, seed)
    floors = dict(floors)
    floors.update({"churn_storm_workers": 20000, "storm_rounds": 5000, "handoff_steps": 20000,
                   "large_capacity_slot_pairs": 1000,
                   "claims_that_filled_the_table_while_a_holder_exited": 1000,
                   "exits_while_threads_were_waiting_for_an_id": 1000, "cascades_of_transient_claimers": 2000,
                   "stepper_stalls_at_single_instructions": 1000})
    return _mk(prop, tier, seed, t0, jobs, floors, rule=ID_RULE + STORM_RULE, assumptions=THR_ASSUME)


def spec_C05(prop, tier, seed, t0):
    return _id_check(prop, tier, seed, t0, QUICK_CAPS,
                     {"thread_lifetimes": 10000, "claims_that_probed_more_than_one_slot": 2000,
                      "claims_that_wrapped_around": 200, "stability_checks_while_heartbeat_pinned": 100})


def spec_C14(prop, tier, seed, t0):
    return _id_check(prop, tier, seed, t0, QUICK_CAPS,
                     {"waves_of_N_simultaneous_holders": 100, "oversubscribed_rounds": 100, "churn_rounds": 100,
                      "chaos_overlaps:42+43+44": 200})


def spec_C15(prop, tier, seed, t0):
    return _id_check(prop, tier, seed, t0, [1, 2, 3, 8],
                     {"id_reuses_checked": 5000, "chaos_overlaps:43+44": 300,
                      "heartbeat_alive_checks_on_running_threads": 40, "heartbeats_pinned_by_other_threads": 60})


EPOCH_RULE = ("one evaluation = one ForwardGlobalEpoch, one guard or one list returned by GetProtectedEpochs in a run "
              "with one coordinator and N-1 churned worker threads; distinct non-trivial cases = distinct "
              "(capacity, sub-workload) and (capacity, observed situation: guard on reused ID, list held across a "
              "node boundary, quiescent forward, stale publication, lookup stall) signatures plus (delay point, "
              "phase) pairs that overlapped foreign operations")


START_RULE = ("; mode=epochstart: fresh managers whose first CreateEpochGuard calls are made by all workers at the same "
              "instant (spin barrier, nanosecond skews; persistent threads that own their IDs and fresh threads); "
              "sub-workload D: workers live for a handful of operations and a dedicated thread starts each successor onto "
              "the vacated ID at once while the coordinator is parked inside its scan of the per-thread slots")


def _epoch_extra(subs):
    def f(rng, n, i):
        return {"sub": subs[i % len(subs)], "pace": rng.choice([0, 2000, 2000, 20000, 50000]),
                "fwdchaos": 1 if rng.random() < 0.25 else 0, "preempt": 1 if rng.random() < 0.5 else 0,
                "step": 1 if i % 2 == 1 else 0}
    return f


def duo_jobs(tier, seed, runs_q=2, runs_t=6):
    # two managers, each with its own coordinator, forwarding at the same time
    return thr_jobs("epochduo", [2, 3, 8] if tier == "quick" else [2, 3, 5, 8, 16], seed + 8,
                    runs_q if tier == "quick" else runs_t, 1 if tier == "quick" else 4,
                    extra=lambda rng, n, i: {"pace": rng.choice([0, 0, 2000, 20000]), "preempt": i % 2})


DUO_RULE = ("; mode=epochduo: two managers in one process, each forwarded by its own coordinator at the same time, "
            "workers hold guards of either or both managers; every coordinator checks its own list after every forward "
            "(guard epoch first, preceding epoch second, strictly descending, live guards contained, exactly "
            "{current, current-1} when no guard of that manager existed during the window)")


def spec_C04(prop, tier, seed, t0):
    caps = [2, 3, 8] if tier == "quick" else [2, 3, 5, 8, 16, 64, BIG_CAP]
    runs, scale = (12, 1) if tier == "quick" else (20, 4)
    jobs = thr_jobs("epoch", caps, seed, runs, scale, extra=_epoch_extra(["A"]))
    if tier == "quick":
        jobs += thr_jobs("epoch", [BIG_CAP], seed + 4, 3, 1, extra=_epoch_extra(["A"]))
    # fresh managers first used by all workers at the same instant
    jobs += thr_jobs("epochstart", [3, 8] if tier == "quick" else [2, 3, 5, 8, 16, BIG_CAP], seed + 6, 4 if tier == "quick" else 8,
                     1 if tier == "quick" else 4, extra=lambda rng, n, i: {"preempt": 1 if i % 4 == 3 else 0})
    # thread churn at full speed (lifetimes of a few operations, successors steered onto the vacated ID by a dedicated
    # thread) while the coordinator is parked inside its scan of the per-thread slots
    jobs += thr_jobs("epoch", [2, 3, 8] if tier == "quick" else [2, 3, 5, 8, 16, BIG_CAP], seed + 7, 4 if tier == "quick" else 8,
                     1 if tier == "quick" else 4, extra=_epoch_extra(["D"]))
    jobs += duo_jobs(tier, seed)
    return _mk(prop, tier, seed, t0, jobs, {"guard_forward_pairs_checked": 50000, "guard_forward_pairs_on_reused_id": 5000,
                                           "thread_replacements": 3000, "chaos_overlaps:43+44": 20, "chaos_overlaps:60": 1000,
                                           "fresh_manager_rounds": 10000, "sole_surviving_guard_forward_pairs_checked": 30000,
                                           "forwards_started_while_the_other_manager_was_forwarding": 10000},
               rule=EPOCH_RULE + START_RULE + DUO_RULE, assumptions=THR_ASSUME)


def spec_C16(prop, tier, seed, t0):
    caps = QUICK_CAPS if tier == "quick" else THOROUGH_CAPS
    runs, scale = (8, 1) if tier == "quick" else (16, 4)
    jobs = thr_jobs("epoch", caps, seed, runs, scale, extra=_epoch_extra(["A"]))
    jobs += thr_jobs("model", caps, seed + 1, 2 if tier == "quick" else 10, 4 if tier == "quick" else 20)
    # very long histories: every power of two up to 2^24 (quick) / 2^32 (thorough, ~5 min on one core) is crossed
    jobs += thr_jobs("long", [1, 8], seed + 2, 1, 24 if tier == "quick" else 32, timeout=3600, cost=1)
    jobs += duo_jobs(tier, seed, 1, 4)
    return _mk(prop, tier, seed, t0, jobs, {"forwards": 200000, "quiescent_checks": 50, "monotonic_read_checks": 4000,
                                           "powers_of_two_crossed": 30, "guards_assigned_over_live_guard_of_other_manager": 100},
               rule=EPOCH_RULE, assumptions=THR_ASSUME)


def spec_C17(prop, tier, seed, t0):
    caps = [2, 3, 8] if tier == "quick" else [2, 3, 5, 8, 16, 64, BIG_CAP]
    runs, scale = (9, 1) if tier == "quick" else (24, 4)
    jobs = thr_jobs("epoch", caps, seed, runs, scale, extra=_epoch_extra(["A", "A", "A", "B", "A", "C"]))
    acaps = [3, 8] if tier == "quick" else [3, 8]
    jobs += thr_jobs("epoch", acaps, seed + 5, 3 if tier == "quick" else 16, 1, flavor="asan",
                     extra=_epoch_extra(["A", "A", "B"]))
    jobs += duo_jobs(tier, seed, 3, 6)
    return _mk(prop, tier, seed, t0, jobs, {"lists_checked": 100000, "lists_held_across_a_node_boundary": 200,
                                           "forwards_started_while_the_other_manager_was_forwarding": 20000},
               rule=EPOCH_RULE + DUO_RULE + "; sub-workload A injects no delay inside EnterEpoch's read/publish gap nor inside the "
               "list lookup, B parks workers in the gap, C parks them inside the lookup traversal; every symptom is "
               "keyed by the history class the worker itself observed",
               assumptions=THR_ASSUME)


def spec_C20(prop, tier, seed, t0):
    caps = QUICK_CAPS if tier == "quick" else THOROUGH_CAPS
    runs, scale = (4, 8) if tier == "quick" else (30, 40)
    jobs = thr_jobs("model", caps, seed, runs, scale)
    if tier == "quick":
        jobs += thr_jobs("model", [BIG_CAP], seed + 4, 2, scale)
    jobs += thr_jobs("model", [3, 8], seed + 3, 1 if tier == "quick" else 10, 2, flavor="asan", stderr_rules=[LEAK_RULE])
    jobs += duo_jobs(tier, seed, 1, 4)
    rule = ("one evaluation = one ForwardGlobalEpoch in a lock-step (sequential) history of guard creation/destruction "
            "by up to N-1 worker threads, after which the published list and GetMinEpoch are compared with a "
            "reference model and the number of live list nodes (over-aligned allocations) with the number of distinct "
            "256-epoch ranges in the list; managers are destroyed and all nodes must be freed; distinct non-trivial "
            "cases = distinct (capacity, number of pins, number of ranges) and destruction-point signatures")
    return _mk(prop, tier, seed, t0, jobs, {"lists_compared_with_model": 200000, "node_boundaries_crossed": 500,
                                           "managers_destroyed": 50}, rule=rule, assumptions=THR_ASSUME)


SPECS = {
    "C04": spec_C04,
    "C05": spec_C05,
    "C14": spec_C14,
    "C15": spec_C15,
    "C16": spec_C16,
    "C17": spec_C17,
    "C20": spec_C20,
    "C06": spec_C06,
    "C18": spec_C18,
    "C19": spec_C19,
    "C02": spec_C02,
    "C03": spec_C03,
    "C09": spec_C09,
    "C10": spec_C10,
    "C11": spec_C11,
    "C12": spec_C12,
    "C13": spec_C13,
    "C07": spec_C07,
    "C08": spec_C08,
    "C01": spec_C01,
}
