"""Per-property plans: which workloads run, which floors apply, how evidence is described."""
import random

import runner
from runner import Job

CLASSES = ["pess", "opt", "mcs"]


def all_builds():
    b = ["lock_stress.plain", "lock_stress.tsan", "lock_stress.asan",
         "zipf_mon.plain", "zipf_mon.asanfatal", "zipf_mon.tsan"]
    return b


# ----------------------------------------------------------------------------------------
# lock_stress job generation
# ----------------------------------------------------------------------------------------
def lock_jobs(rng, classes, profiles, runs_per_class, flavor="plain", ops_total=24000, mcs_ops_total=6000,
              threads_choices=(2, 3, 4, 6, 8, 12, 16), locks_choices=(1, 1, 2, 3), chaos_choices=(1, 2, 2, 3),
              hold_choices=(0, 500, 2000, 20000), hang_s=20, extra=None, variant="", timeout=600):
    jobs = []
    for cls in classes:
        profs = [p for p in profiles if not (cls != "opt" and p in ("optimistic", "prepare"))]
        for i in range(runs_per_class):
            prof = profs[i % len(profs)]
            threads = rng.choice(threads_choices)
            total = mcs_ops_total if cls == "mcs" else ops_total
            args = {
                "cls": cls, "threads": threads, "locks": rng.choice(locks_choices),
                "ops": max(50, total // threads), "seed": rng.randrange(1, 2**31), "profile": prof,
                "chaos": rng.choice(chaos_choices), "hold": rng.choice(hold_choices), "hang_s": hang_s,
            }
            if extra:
                args.update(extra)
            build = "lock_stress.%s%s" % (flavor, ("." + variant) if variant else "")
            jobs.append(Job(build, args, timeout=timeout, tag="%s/%s" % (cls, prof), cost=min(threads, 8)))
    return jobs


LOCK_RULE = ("executions are short randomized multi-thread runs of the real lock code (profile, thread count, "
             "lock count, hold times, seed and chaos plan drawn from VERIF_SEED); evaluations = completed client "
             "operations; a case is distinct and non-trivial when it is a distinct signature (lock class, API, "
             "granted mode, ghost holders registered at the moment of the grant) or (optimistic check kind, "
             "outcome, whether the window overlapped an exclusive section) observed by the monitor, or a distinct "
             "(injected-delay point, operation kind) pair during whose delay operations of other threads completed")

LOCK_ASSUME = [
    "schedules are sampled (stress + injected delays at the hook points), not enumerated",
    "ghost facts are recorded inside the real hold interval (after the acquiring call returned, before the "
    "releasing call is made), so a ghost conflict implies a real overlap; overlaps shorter than the "
    "registration window can be missed",
    "hang = no completed operation for hang_s seconds while every unfinished thread is inside a library call "
    "and the process is consuming CPU",
]


def _mk(prop, tier, seed, t0, jobs, floors, rule=LOCK_RULE, assumptions=LOCK_ASSUME, extra_cov=None):
    results = runner.run_jobs(jobs)
    out = runner.aggregate(results)
    return runner.finish(prop, tier, seed, out, t0, rule, floors, extra_cov=extra_cov, assumptions=assumptions)


def spec_C01(prop, tier, seed, t0):
    rng = random.Random(seed * 7919 + 1)
    profs = ["mixed", "readers", "writers", "convert", "ssix", "random", "optimistic", "prepare", "sx"]
    if tier == "quick":
        jobs = lock_jobs(rng, CLASSES, profs, 12)
    else:
        jobs = lock_jobs(rng, CLASSES, profs, 300, ops_total=40000, mcs_ops_total=10000)
        jobs += lock_jobs(rng, CLASSES, profs, 60, variant="spinalt")
        jobs += lock_jobs(rng, CLASSES, profs, 40, flavor="tsan", ops_total=8000, mcs_ops_total=3000)
        jobs += lock_jobs(rng, CLASSES, profs, 40, flavor="asan", ops_total=12000, mcs_ops_total=4000)
    return _mk(prop, tier, seed, t0, jobs, {"grants_sharing_with_other_holders": 1000, "distinct_nontrivial": 40})


def spec_C07(prop, tier, seed, t0):
    rng = random.Random(seed * 7919 + 7)
    profs = ["mixed", "convert", "random", "optimistic", "prepare"]
    n = 10 if tier == "quick" else 300
    jobs = lock_jobs(rng, CLASSES, profs, n)
    return _mk(prop, tier, seed, t0, jobs, {"guard_ownership_checks": 100000})


def spec_C08(prop, tier, seed, t0):
    rng = random.Random(seed * 7919 + 8)
    profs = ["mixed", "readers", "writers", "convert", "ssix", "sx", "optimistic", "prepare", "random"]
    n = 14 if tier == "quick" else 400
    kw = dict(flavor="tsan", ops_total=6000, mcs_ops_total=3000, threads_choices=(2, 3, 4, 6, 8),
              hold_choices=(0, 500, 2000))
    jobs = lock_jobs(rng, CLASSES, profs, n, **kw)
    # republishing SetVersion (the property quantifies over every client program)
    jobs += lock_jobs(rng, ["opt"], ["optimistic", "prepare", "writers", "mixed"], max(4, n // 3),
                      extra={"arbver": 1}, **kw)
    if tier != "quick":
        kw["flavor"] = "tsanclang"
        jobs += lock_jobs(rng, CLASSES, profs, 120, **kw)
    rule = LOCK_RULE + ("; the deciding oracle is ThreadSanitizer's happens-before analysis of plain payload "
                        "words that are touched only inside granted critical sections")
    return _mk(prop, tier, seed, t0, jobs, {"exclusive_sections": 2000, "distinct_nontrivial": 40}, rule=rule,
               assumptions=LOCK_ASSUME + ["TSan derives happens-before from the memory_order arguments in the "
                                          "source; atomic_thread_fence is not modelled (not used by granted "
                                          "sections); reports whose racing address is not a payload word are "
                                          "recorded as observations only"])


def spec_C02(prop, tier, seed, t0):
    rng = random.Random(seed * 7919 + 2)
    profs = ["mixed", "xonly", "convert", "sx", "writers", "ssix", "random", "readers", "optimistic", "prepare"]
    if tier == "quick":
        jobs = lock_jobs(rng, CLASSES, profs, 10, chaos_choices=(2, 3, 3))
        jobs += lock_jobs(rng, ["mcs"], ["xonly", "mixed", "convert", "sx"], 8, threads_choices=(16, 24),
                          mcs_ops_total=5000, chaos_choices=(2, 3))
    else:
        jobs = lock_jobs(rng, CLASSES, profs, 400, chaos_choices=(1, 2, 3, 3), ops_total=40000, mcs_ops_total=10000)
        jobs += lock_jobs(rng, ["mcs"], ["xonly", "mixed", "convert", "sx"], 200, threads_choices=(16, 24),
                          mcs_ops_total=8000, chaos_choices=(2, 3))
        jobs += lock_jobs(rng, CLASSES, profs, 100, variant="spinalt", chaos_choices=(2, 3))
    return _mk(prop, tier, seed, t0, jobs, {"ops_total": 100000, "distinct_nontrivial": 40})


def spec_C03(prop, tier, seed, t0):
    rng = random.Random(seed * 7919 + 3)
    profs = ["optimistic", "prepare", "mixed", "writers", "random"]
    n = 30 if tier == "quick" else 1500
    jobs = lock_jobs(rng, ["opt"], profs, n, hold_choices=(0, 500, 2000, 20000), chaos_choices=(2, 3, 3),
                     ops_total=30000)
    if tier != "quick":
        jobs += lock_jobs(rng, ["opt"], profs, 200, variant="spinalt", chaos_choices=(2, 3))
        jobs += lock_jobs(rng, ["opt"], profs, 100, flavor="asan", ops_total=10000)
    return _mk(prop, tier, seed, t0, jobs,
               {"opt_checks_ok": 5000, "opt_checks_failed": 500, "opt_windows_overlapping_an_exclusive_section": 200})


def spec_C09(prop, tier, seed, t0):
    rng = random.Random(seed * 7919 + 9)
    profs = ["writers", "mixed", "convert", "optimistic", "random"]
    n = 16 if tier == "quick" else 600
    jobs = lock_jobs(rng, ["opt"], profs, n)
    jobs += lock_jobs(rng, ["opt"], profs, n, extra={"arbver": 1})
    return _mk(prop, tier, seed, t0, jobs, {"version_checks_under_shared_hold": 2000, "exclusive_sections": 20000})


def spec_C10(prop, tier, seed, t0):
    rng = random.Random(seed * 7919 + 10)
    profs = ["convert", "mixed", "random", "ssix"]
    n = 12 if tier == "quick" else 500
    jobs = lock_jobs(rng, CLASSES, profs, n, chaos_choices=(2, 3, 3))
    if tier != "quick":
        jobs += lock_jobs(rng, CLASSES, profs, 100, variant="spinalt", chaos_choices=(2, 3))
    return _mk(prop, tier, seed, t0, jobs, {"upgrades": 5000, "downgrades": 5000})


def spec_C11(prop, tier, seed, t0):
    rng = random.Random(seed * 7919 + 11)
    profs = ["mixed", "starve", "sx", "writers", "convert", "ssix", "readers", "random"]
    n = 32 if tier == "quick" else 1500
    jobs = lock_jobs(rng, ["mcs"], profs, n, threads_choices=(4, 6, 8, 12, 16), hold_choices=(2000, 20000, 50000),
                     mcs_ops_total=5000, chaos_choices=(1, 2, 3))
    return _mk(prop, tier, seed, t0, jobs,
               {"mcs_requests_with_arrival_stamp": 20000, "mcs_grants_with_later_conflicting_waiters": 2000})


def spec_C12(prop, tier, seed, t0):
    rng = random.Random(seed * 7919 + 12)
    profs = ["mixed", "readers", "sx", "ssix", "convert", "starve", "random", "writers"]
    n = 24 if tier == "quick" else 1000
    jobs = lock_jobs(rng, ["mcs"], profs, n, hold_choices=(500, 2000, 20000), locks_choices=(1, 2, 3),
                     mcs_ops_total=6000, chaos_choices=(1, 2, 3))
    jobs += lock_jobs(rng, ["mcs"], profs, n // 2, flavor="asan", hold_choices=(500, 2000, 20000),
                      locks_choices=(1, 2, 3), mcs_ops_total=4000, chaos_choices=(1, 2, 3))
    return _mk(prop, tier, seed, t0, jobs, {"mcs_nodes_allocated": 500, "ops_total": 50000})


def spec_C13(prop, tier, seed, t0):
    rng = random.Random(seed * 7919 + 13)
    profs = ["prepare"]
    n = 30 if tier == "quick" else 1500
    jobs = lock_jobs(rng, ["opt"], profs, n, hold_choices=(2000, 20000, 50000), chaos_choices=(2, 3, 3),
                     threads_choices=(3, 4, 6, 8, 12), ops_total=20000)
    if tier != "quick":
        jobs += lock_jobs(rng, ["opt"], profs, 300, variant="spinalt", hold_choices=(2000, 20000))
    return _mk(prop, tier, seed, t0, jobs, {"prepare_owning": 500, "prepare_optimistic": 5000})


ZIPF_ASSUME = [
    "inputs are sampled from dense but finite sets (all n <= 300, neighbourhoods of 100/101/1000/1100/10^4, random "
    "n, alpha grid + special values, four integer types); breakpoints of large distributions are sampled",
    "admissible input = max-min+1 and that value + 1 representable in IntType (approximate class: n <= type max - 200)",
    "reference values are computed in long double",
]


def zipf_jobs(mode, seed, scale, flavor="plain", shards=16, abort_prop=None, timeout=1800):
    return [Job("zipf_mon.%s" % flavor, {"mode": mode, "seed": seed, "part": i, "of": shards, "scale": scale},
                timeout=timeout, tag="%s shard %d/%d" % (mode, i, shards), cost=2, abort_prop=abort_prop)
            for i in range(shards)]


def spec_C06(prop, tier, seed, t0):
    scale = 1 if tier == "quick" else 8
    jobs = zipf_jobs("c06", seed, scale, "asanfatal", abort_prop="C06")
    if tier != "quick":
        jobs += zipf_jobs("c06", seed + 1000, 12, "plain")
    rule = ("one evaluation = one call of operator() with a scripted or mt19937_64 engine, judged against GetCDF "
            "with the uniform variate recomputed from a copy of the engine; engine words are placed on, just below "
            "and just above CDF breakpoints (floor(c*2^64) + d*2^j); distinct non-trivial cases = distinct "
            "(class, integer type, bin-count class, skew class, placement of [min,max]) combinations exercised")
    return _mk(prop, tier, seed, t0, jobs, {"draws_u_below_breakpoint": 100000, "draws_u_equal_breakpoint": 100000,
                                           "draws_u_above_breakpoint": 100000, "distinct_nontrivial": 100},
               rule=rule, assumptions=ZIPF_ASSUME + ["built with ASan+UBSan, reports fatal: any report inside "
                                                     "operator()/GetCDF aborts the shard and is a violation"])


def spec_C18(prop, tier, seed, t0):
    scale = 1 if tier == "quick" else 8
    jobs = zipf_jobs("c18", seed, scale, "plain")
    if tier != "quick":
        jobs += zipf_jobs("c18", seed, 1, "asanfatal", abort_prop="C18")
    rule = ("one evaluation = one GetCDF value compared with the long-double reference (exact class) or with the "
            "exact class (approximate class); distinct non-trivial cases = distinct (class, integer type, bin-count "
            "class, skew class) combinations")
    return _mk(prop, tier, seed, t0, jobs, {"cdf_values_checked": 5000000, "approx_pairs_in_bound_domain": 2000,
                                           "distinct_nontrivial": 40}, rule=rule, assumptions=ZIPF_ASSUME)


def spec_C19(prop, tier, seed, t0):
    scale = 2 if tier == "quick" else 40
    jobs = zipf_jobs("c19", seed, scale, "plain")
    jobs += zipf_jobs("c19", seed + 7, max(1, scale // 2), "tsan", shards=8)
    rule = ("one evaluation = one draw; for every sampled parameter set the sequences of an equal-parameter twin, a "
            "second pass, copies, moved generators and of 2-6 threads sharing one const generator are compared "
            "element-wise with the reference sequence; constructors with max < min must throw; the TSan build "
            "reports any data race on the shared generator; distinct = (class, type, n class, thread count)")
    return _mk(prop, tier, seed, t0, jobs, {"sequences_compared": 2000, "rejections_checked": 100,
                                           "distinct_nontrivial": 30}, rule=rule, assumptions=ZIPF_ASSUME)


SPECS = {
    "C06": spec_C06,
    "C18": spec_C18,
    "C19": spec_C19,
    "C02": spec_C02,
    "C03": spec_C03,
    "C09": spec_C09,
    "C10": spec_C10,
    "C11": spec_C11,
    "C12": spec_C12,
    "C13": spec_C13,
    "C07": spec_C07,
    "C08": spec_C08,
    "C01": spec_C01,
}
