"""Per-property plans: which workloads run, which floors apply, how evidence is described."""
import random

import runner
from runner import Job

CLASSES = ["pess", "opt", "mcs"]


def all_builds():
    b = ["lock_stress.plain", "lock_stress.tsan", "lock_stress.asan"]
    return b


# ----------------------------------------------------------------------------------------
# lock_stress job generation
# ----------------------------------------------------------------------------------------
def lock_jobs(rng, classes, profiles, runs_per_class, flavor="plain", ops_total=24000, mcs_ops_total=6000,
              threads_choices=(2, 3, 4, 6, 8, 12, 16), locks_choices=(1, 1, 2, 3), chaos_choices=(1, 2, 2, 3),
              hold_choices=(0, 500, 2000, 20000), hang_s=20, extra=None, variant="", timeout=600):
    jobs = []
    for cls in classes:
        profs = [p for p in profiles if not (cls != "opt" and p in ("optimistic", "prepare"))]
        for i in range(runs_per_class):
            prof = profs[i % len(profs)]
            threads = rng.choice(threads_choices)
            total = mcs_ops_total if cls == "mcs" else ops_total
            args = {
                "cls": cls, "threads": threads, "locks": rng.choice(locks_choices),
                "ops": max(50, total // threads), "seed": rng.randrange(1, 2**31), "profile": prof,
                "chaos": rng.choice(chaos_choices), "hold": rng.choice(hold_choices), "hang_s": hang_s,
            }
            if extra:
                args.update(extra)
            build = "lock_stress.%s%s" % (flavor, ("." + variant) if variant else "")
            jobs.append(Job(build, args, timeout=timeout, tag="%s/%s" % (cls, prof), cost=min(threads, 8)))
    return jobs


LOCK_RULE = ("executions are short randomized multi-thread runs of the real lock code (profile, thread count, "
             "lock count, hold times, seed and chaos plan drawn from VERIF_SEED); evaluations = completed client "
             "operations; a case is distinct and non-trivial when it is a distinct signature (lock class, API, "
             "granted mode, ghost holders registered at the moment of the grant) or (optimistic check kind, "
             "outcome, whether the window overlapped an exclusive section) observed by the monitor, or a distinct "
             "(injected-delay point, operation kind) pair during whose delay operations of other threads completed")

LOCK_ASSUME = [
    "schedules are sampled (stress + injected delays at the hook points), not enumerated",
    "ghost facts are recorded inside the real hold interval (after the acquiring call returned, before the "
    "releasing call is made), so a ghost conflict implies a real overlap; overlaps shorter than the "
    "registration window can be missed",
    "hang = no completed operation for hang_s seconds while every unfinished thread is inside a library call "
    "and the process is consuming CPU",
]


def _mk(prop, tier, seed, t0, jobs, floors, rule=LOCK_RULE, assumptions=LOCK_ASSUME, extra_cov=None):
    results = runner.run_jobs(jobs)
    out = runner.aggregate(results)
    return runner.finish(prop, tier, seed, out, t0, rule, floors, extra_cov=extra_cov, assumptions=assumptions)


def spec_C01(prop, tier, seed, t0):
    rng = random.Random(seed * 7919 + 1)
    profs = ["mixed", "readers", "writers", "convert", "ssix", "random", "optimistic", "prepare", "sx"]
    if tier == "quick":
        jobs = lock_jobs(rng, CLASSES, profs, 12)
    else:
        jobs = lock_jobs(rng, CLASSES, profs, 300, ops_total=40000, mcs_ops_total=10000)
        jobs += lock_jobs(rng, CLASSES, profs, 60, variant="spinalt")
        jobs += lock_jobs(rng, CLASSES, profs, 40, flavor="tsan", ops_total=8000, mcs_ops_total=3000)
        jobs += lock_jobs(rng, CLASSES, profs, 40, flavor="asan", ops_total=12000, mcs_ops_total=4000)
    return _mk(prop, tier, seed, t0, jobs, {"grants_sharing_with_other_holders": 1000, "distinct_nontrivial": 40})


SPECS = {
    "C01": spec_C01,
}
