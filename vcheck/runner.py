"""Build / run / aggregate machinery shared by all checks."""
import concurrent.futures as cf
import glob
import hashlib
import json
import os
import shutil
import subprocess
import sys
import time

VERIF = os.path.dirname(os.path.dirname(os.path.abspath(__file__)))
REPO = os.environ.get("VERIF_REPO", "/repo")
BUILD = os.path.join(VERIF, "build")
_ALT = os.path.realpath(REPO) != "/repo"  # runs against a scratch copy must not touch the committed evidence
EVID = os.path.join(VERIF, "build", "evidence-alt") if _ALT else os.path.join(VERIF, "evidence")
REPLAYS = os.path.join(VERIF, "build", "replays-alt") if _ALT else os.path.join(VERIF, "replays")
GUARD = "DBGROUP_CPP_UTILITY_VERIF"
NCPU = os.cpu_count() or 8

# ----------------------------------------------------------------------------------------
# builds
# ----------------------------------------------------------------------------------------
COMMON_DEFS = ["-D" + GUARD, "-DCPP_UTILITY_HAS_SPINLOCK_HINT"]
SPIN_DEFAULT = ["-DCPP_UTILITY_SPINLOCK_RETRY_NUM=10", "-DCPP_UTILITY_BACKOFF_TIME=10"]
# the other extreme of the two documented spin options: no retries at all, minimal back-off
DEFAULT_THREAD_NUM = 32  # CMake default: number of logical cores x 2 (16 cores here)
SPIN_ALT = ["-DCPP_UTILITY_SPINLOCK_RETRY_NUM=0", "-DCPP_UTILITY_BACKOFF_TIME=1"]

FLAVORS = {
    "plain": (["-O2", "-g"], "g++"),
    "tsan": (["-O1", "-g", "-fsanitize=thread", "-fno-omit-frame-pointer"], "g++"),
    # clang's runtime dead-locks when instrumented code runs inside __tsan_on_report, so this flavor has no
    # callback; its reports are classified from the text (payload = the global engine object, queue nodes = heap)
    "tsanclang": (["-O1", "-g", "-fsanitize=thread", "-fno-omit-frame-pointer", "-DVERIF_NO_TSAN_CALLBACK"], "clang++"),
    "asan": (["-O1", "-g", "-fsanitize=address,undefined", "-fno-omit-frame-pointer",
              "-fsanitize-recover=address"], "g++"),
    "asanfatal": (["-O1", "-g", "-fsanitize=address,undefined", "-fno-omit-frame-pointer",
                   "-fno-sanitize-recover=all"], "g++"),
}

LOCK_SRCS = ["src/lock/pessimistic_lock.cpp", "src/lock/optimistic_lock.cpp", "src/lock/mcs_lock.cpp"]
THREAD_SRCS = ["src/thread/id_manager.cpp", "src/thread/epoch_manager.cpp", "src/thread/epoch_guard.cpp",
               "src/thread/component/epoch.cpp"]
ZIPF_SRCS = ["src/random/zipf.cpp"]


def build_spec(name):
    """name = <program>.<flavor>[.<variant>]  ->  (harness sources, repo sources, flags, compiler)"""
    parts = name.split(".")
    prog, flavor = parts[0], parts[1]
    variant = parts[2] if len(parts) > 2 else ""
    flags, cxx = FLAVORS[flavor]
    flags = list(flags) + COMMON_DEFS
    # every translation unit gets all four definitions the library's own CMake target publishes, whichever of them
    # the unchanged sources of that component happen to use
    if prog in ("lock_stress", "lock_seq"):
        flags += SPIN_ALT if variant == "spinalt" else SPIN_DEFAULT
        flags += ["-DDBGROUP_MAX_THREAD_NUM=%s" % DEFAULT_THREAD_NUM]
        return (["harness/lock/%s.cpp" % prog], LOCK_SRCS, flags, cxx)
    if prog == "thr_mon":
        n = variant[1:] if variant.startswith("n") else "8"
        flags += ["-DDBGROUP_MAX_THREAD_NUM=%s" % n] + SPIN_DEFAULT
        return (["harness/thread/thr_mon.cpp"], THREAD_SRCS, flags, cxx)
    if prog == "zipf_mon":
        flags += ["-DDBGROUP_MAX_THREAD_NUM=%s" % DEFAULT_THREAD_NUM] + SPIN_DEFAULT
        return (["harness/zipf/zipf_mon.cpp"], ZIPF_SRCS, flags, cxx)
    raise KeyError(name)


def _tree_hash():
    h = hashlib.sha1()
    files = sorted(glob.glob(os.path.join(REPO, "src", "**", "*.cpp"), recursive=True)
                   + glob.glob(os.path.join(REPO, "include", "**", "*.hpp"), recursive=True)
                   + glob.glob(os.path.join(VERIF, "harness", "**", "*.?pp"), recursive=True))
    for f in files:
        h.update(f.encode())
        with open(f, "rb") as fh:
            h.update(fh.read())
    return h.hexdigest()[:16]


_TREE_HASH = None


def tree_hash():
    global _TREE_HASH
    if _TREE_HASH is None:
        _TREE_HASH = _tree_hash()
    return _TREE_HASH


def _compile(cxx, flags, src, obj):
    cmd = [cxx, "-std=c++20", "-pthread", "-Wall", "-Wextra", "-Wno-unused-parameter"] + flags + [
        "-I" + os.path.join(REPO, "include"), "-I" + os.path.join(VERIF, "harness"), "-c", src, "-o", obj]
    p = subprocess.run(cmd, capture_output=True, text=True)
    return (p.returncode, " ".join(cmd), p.stderr)


def ensure_builds(names, log=print):
    """Build (in parallel) every binary in names that is not cached for the current tree."""
    os.makedirs(BUILD, exist_ok=True)
    todo = []
    out = {}
    for n in names:
        hs_, rs_, flags_, cxx_ = build_spec(n)
        th = hashlib.sha1((tree_hash() + cxx_ + " ".join(flags_)).encode()).hexdigest()[:16]  # sources + flags
        d = os.path.join(BUILD, "%s-%s" % (n, th))
        exe = os.path.join(d, n.split(".")[0])
        out[n] = exe
        if not os.path.exists(exe):
            todo.append((n, d, exe))
    if not todo:
        return out
    # remove stale builds of the same names (disk): keep the few most recent ones, because checks may run
    # concurrently against different source trees (VERIF_REPO)
    for n, d, exe in todo:
        olds = sorted((o for o in glob.glob(os.path.join(BUILD, n + "-*")) if o != d), key=os.path.getmtime)
        for old in olds[:-4]:
            shutil.rmtree(old, ignore_errors=True)
        os.makedirs(d, exist_ok=True)
    t0 = time.time()
    units = []
    for n, d, exe in todo:
        hs, rs, flags, cxx = build_spec(n)
        for s in hs:
            units.append((n, cxx, flags, os.path.join(VERIF, s), os.path.join(d, os.path.basename(s) + ".o")))
        for s in rs:
            units.append((n, cxx, flags, os.path.join(REPO, s), os.path.join(d, s.replace("/", "_") + ".o")))
    failed = False
    with cf.ThreadPoolExecutor(max_workers=NCPU) as ex:
        futs = {ex.submit(_compile, u[1], u[2], u[3], u[4]): u for u in units}
        for f in cf.as_completed(futs):
            rc, cmd, err = f.result()
            if rc != 0:
                failed = True
                log("BUILD FAILED: %s\n%s" % (cmd, err[-4000:]))
    if failed:
        raise RuntimeError("build failed")
    for n, d, exe in todo:
        hs, rs, flags, cxx = build_spec(n)
        objs = [u[4] for u in units if u[0] == n]
        link = [f for f in flags if f.startswith("-fsanitize") or f in ("-g",)]
        cmd = [cxx, "-pthread"] + link + objs + ["-o", exe + ".tmp", "-ldl"]
        p = subprocess.run(cmd, capture_output=True, text=True)
        if p.returncode != 0:
            log("LINK FAILED: %s\n%s" % (" ".join(cmd), p.stderr[-4000:]))
            raise RuntimeError("link failed")
        os.replace(exe + ".tmp", exe)
        for o in objs:
            os.remove(o)
    log("[build] %d binaries for tree %s in %.1f s" % (len(todo), tree_hash(), time.time() - t0))
    return out


# ----------------------------------------------------------------------------------------
# jobs
# ----------------------------------------------------------------------------------------
class Job:
    def __init__(self, build, args, timeout=300, env=None, tag="", cost=1, abort_prop=None, stderr_rules=None):
        self.stderr_rules = stderr_rules or []  # [(regex, prop, key)]: a match in stderr is a violation
        self.abort_prop = abort_prop  # property a fatal sanitizer report in this job is attributed to
        self.build = build      # build name
        self.args = args        # dict or list
        self.timeout = timeout
        self.env = env or {}
        self.tag = tag
        self.cost = cost        # rough number of cores the job keeps busy

    def argv(self, exe):
        if isinstance(self.args, dict):
            return [exe] + ["%s=%s" % (k, v) for k, v in self.args.items()]
        return [exe] + list(self.args)

    def describe(self):
        a = self.args if isinstance(self.args, list) else ["%s=%s" % kv for kv in self.args.items()]
        return {"build": self.build, "args": a, "env": self.env, "timeout": self.timeout}


SAN_ENV = {
    "TSAN_OPTIONS": "halt_on_error=0 exitcode=0 history_size=4 report_signal_unsafe=0 second_deadlock_stack=0",
    "ASAN_OPTIONS": "halt_on_error=0 exitcode=0 detect_leaks=1 allocator_may_return_null=1 detect_stack_use_after_return=0",
    "UBSAN_OPTIONS": "print_stacktrace=1 halt_on_error=0",
    "LSAN_OPTIONS": "exitcode=0",
}


def run_job(job, exe):
    env = dict(os.environ)
    env.update(SAN_ENV)
    env.update(job.env)
    t0 = time.time()
    try:
        p = subprocess.run(job.argv(exe), capture_output=True, text=True, timeout=job.timeout, env=env,
                           errors="replace")
        rc, out, err = p.returncode, p.stdout, p.stderr
        timed_out = False
    except subprocess.TimeoutExpired as e:
        rc, timed_out = -1, True
        out = e.stdout.decode(errors="replace") if isinstance(e.stdout, bytes) else (e.stdout or "")
        err = e.stderr.decode(errors="replace") if isinstance(e.stderr, bytes) else (e.stderr or "")
    res = None
    for line in out.splitlines():
        if line.startswith("RESULT "):
            try:
                res = json.loads(line[7:])
            except Exception:
                res = None
    return {"job": job, "rc": rc, "timed_out": timed_out, "result": res, "stderr": err[:12000] + ("\n...\n" + err[-8000:] if len(err) > 12000 else ""),
            "stdout_tail": out[-2000:], "wall": time.time() - t0}


def run_jobs(jobs, parallel=None, log=print, capacity=None):
    """Run jobs concurrently; a job with cost c occupies c of `capacity` thread slots."""
    import threading
    builds = ensure_builds(sorted({j.build for j in jobs}), log)
    if capacity is None:
        capacity = int(os.environ.get("VERIF_SLOTS", str(2 * NCPU)))
    if parallel is not None:
        capacity = parallel
        for j in jobs:
            j.cost = 1
    cond = threading.Condition()
    free = [capacity]
    results = [None] * len(jobs)

    def work(i, j):
        c = max(1, min(j.cost, capacity))
        with cond:
            while free[0] < c:
                cond.wait()
            free[0] -= c
        try:
            results[i] = run_job(j, builds[j.build])
        finally:
            with cond:
                free[0] += c
                cond.notify_all()

    with cf.ThreadPoolExecutor(max_workers=max(4, capacity)) as ex:
        futs = [ex.submit(work, i, j) for i, j in enumerate(jobs)]
        for f in futs:
            f.result()
    return results


# ----------------------------------------------------------------------------------------
# known findings
# ----------------------------------------------------------------------------------------
def load_known():
    p = os.path.join(VERIF, "known_findings.json")
    if not os.path.exists(p):
        return []
    with open(p) as fh:
        return json.load(fh).get("findings", [])


def is_known(known, prop, key):
    for k in known:
        if k["property"] == prop and k["key"] == key:
            return k
    return None


# ----------------------------------------------------------------------------------------
# aggregation, evidence and verdict
# ----------------------------------------------------------------------------------------
class Outcome:
    def __init__(self):
        self.counters = {}
        self.signatures = set()
        self.samples = []
        self.violations = {}   # (prop,key) -> {"detail","count","jobs":[...]}
        self.observations = {}
        self.inconclusive = []  # reasons
        self.chaos = {}         # point -> [hits, delays, overlaps, sigbits]
        self.runs = 0

    def add_violation(self, prop, key, detail, count, job):
        v = self.violations.setdefault((prop, key), {"detail": detail, "count": 0, "jobs": []})
        v["count"] += count
        if len(v["jobs"]) < 3:
            v["jobs"].append(job.describe())


def aggregate(results, out=None):
    out = out or Outcome()
    for r in results:
        job, res = r["job"], r["result"]
        out.runs += 1
        for (rx, rprop, rkey) in job.stderr_rules:
            import re as _re
            mm = _re.search(rx, r["stderr"])
            if mm:
                out.add_violation(rprop, rkey, "%s %s: stderr matched /%s/: %s" % (job.build, job.tag, rx, r["stderr"][mm.start():mm.start() + 1500]), 1, job)
        if res is None and job.abort_prop and not r["timed_out"]:
            import re
            m = re.search(r"(runtime error: [^\n]*|ERROR: AddressSanitizer: [^\n]*|ERROR: LeakSanitizer: [^\n]*)", r["stderr"])
            if m:
                what = re.sub(r"0x[0-9a-f]+|pid=\d+|==\d+==", "", m.group(1))
                what = re.sub(r"\d+", "N", what)[:120].strip()
                frame = re.search(r"#\d+ [^\n]*? in ([^\n]*?(?:/src/|/include/dbgroup/)[^\n]*)", r["stderr"])
                out.add_violation(job.abort_prop, "sanitizer-abort:" + what,
                                  "fatal sanitizer report in %s %s: %s; first library frame: %s" % (
                                      job.build, job.tag, m.group(1), frame.group(1) if frame else "?"), 1, job)
                out.violations[(job.abort_prop, "sanitizer-abort:" + what)]["sanitizer_report"] = r["stderr"][:3500]
                continue
        if res is None:
            why = "timeout after %ds" % job.timeout if r["timed_out"] else "exit code %s without RESULT" % r["rc"]
            out.inconclusive.append("%s %s: %s; stderr tail: %s" % (job.build, job.tag, why, r["stderr"][-600:]))
            continue
        if res.get("status") == "inconclusive":
            out.inconclusive.append("%s %s: %s" % (job.build, job.tag, res.get("strings", {}).get("why", "")))
        for k, v in res.get("counters", {}).items():
            if k.startswith("max_"):
                out.counters[k] = max(out.counters.get(k, 0), v)
            else:
                out.counters[k] = out.counters.get(k, 0) + v
        for s in res.get("signatures", []):
            out.signatures.add(s)
        for p, vals in res.get("chaos", {}).items():
            c = out.chaos.setdefault(p, [0, 0, 0, 0])
            c[0] += vals[0]
            c[1] += vals[1]
            c[2] += vals[2]
            c[3] |= vals[3]
        if len(out.samples) < 6:
            out.samples.extend(res.get("samples", [])[:2])
        for v in res.get("violations", []):
            out.add_violation(v["prop"], v["key"], v["detail"], v.get("count", 1), job)
            ent = out.violations[(v["prop"], v["key"])]
            if "sanitizer_report" not in ent:
                for marker in ("WARNING: ThreadSanitizer", "ERROR: AddressSanitizer", "runtime error:"):
                    i = r["stderr"].find(marker)
                    if i >= 0:
                        ent["sanitizer_report"] = r["stderr"][i:i + 3500]
                        break
        for k, v in res.get("observations", {}).items():
            o = out.observations.setdefault(k, {"count": 0, "sample": v.get("sample", "")})
            o["count"] += v.get("count", 0)
        if r["rc"] not in (0,) and res.get("status") not in ("hang", "inconclusive", "crash", "violation"):
            out.inconclusive.append("%s %s: exit code %s (status %s); stderr tail: %s" % (
                job.build, job.tag, r["rc"], res.get("status"), r["stderr"][-600:]))
    return out


def chaos_pairs(out):
    """distinct (chaos point, operation kind) pairs during which foreign operations completed"""
    n = 0
    for p, vals in out.chaos.items():
        n += bin(vals[3]).count("1")
    return n


def finish(prop, tier, seed, out, t0, rule, floors, extra_cov=None, assumptions=None, level="exploration"):
    """Write evidence, print the verdict lines, return the exit code."""
    known = load_known()
    os.makedirs(EVID, exist_ok=True)
    os.makedirs(REPLAYS, exist_ok=True)
    distinct_floor = 2  # (schema minimum; a run that stopped at its first violation may have seen fewer)
    new, listed = [], []
    for (p, key), v in sorted(out.violations.items()):
        k = is_known(known, p, key)
        (listed if k else new).append((p, key, v, k))
    if any(p == "HARNESS" for (p, _, _, _) in new):
        for (p, key, v, _) in new:
            if p == "HARNESS":
                out.inconclusive.append("harness self-check failed: %s %s" % (key, v["detail"]))
        new = [x for x in new if x[0] != "HARNESS"]

    distinct = max(len(out.signatures) + chaos_pairs(out), 0)
    evaluations = max(int(out.counters.get("evaluations", out.counters.get("ops_total", out.runs))), out.runs, 1)
    cov = {
        "evaluations": evaluations,
        "distinct_nontrivial": distinct,
        "rule": rule,
        "samples": out.samples[:6] if out.samples else [{"note": "no sample recorded"}],
        "runs": out.runs,
        "counters": dict(sorted(out.counters.items())),
        "signatures": sorted(out.signatures)[:400],
        "chaos_points": {p: {"hits": v[0], "delays": v[1], "delays_overlapping_foreign_ops": v[2],
                             "distinct_op_kinds_overlapped": bin(v[3]).count("1")}
                         for p, v in sorted(out.chaos.items(), key=lambda kv: int(kv[0]))},
        "observations": out.observations,
        "known_findings_seen": [{"property": p, "key": key, "count": v["count"]} for (p, key, v, _) in listed],
        "inconclusive": out.inconclusive[:10],
    }
    if extra_cov:
        cov.update(extra_cov)

    # coverage floors
    for name, minimum in (floors or {}).items():
        if name.startswith("chaos_overlaps:"):
            have = sum(out.chaos.get(p, [0, 0, 0, 0])[2] for p in name.split(":")[1].split("+"))
        elif name == "distinct_nontrivial":
            have = distinct
        else:
            have = out.counters.get(name, 0)
        if have < minimum and not new:
            out.inconclusive.append("coverage floor not met: %s=%s < %s" % (name, have, minimum))
            cov["inconclusive"] = out.inconclusive[:10]

    ev = {
        "property_id": prop, "tier": tier, "seed": seed, "level": level, "coverage": cov,
        "assumptions": assumptions or [], "wall_s": round(time.time() - t0, 2),
        "violations": len(new),
    }
    tmp = os.path.join(EVID, prop + ".json.tmp")
    with open(tmp, "w") as fh:
        json.dump(ev, fh, indent=1, default=str)
    os.replace(tmp, os.path.join(EVID, prop + ".json"))

    for (p, key, v, k) in listed:
        print("KNOWN-FINDING: property=%s %s [%s] (seen %d times)" % (p, k.get("what", ""), key, v["count"]))
    rc = 0
    for i, (p, key, v, _) in enumerate(new):
        path = os.path.join(REPLAYS, "%s-%s-seed%d-%d.json" % (prop, tier, seed, i))
        with open(path, "w") as fh:
            json.dump({"checked_property": prop, "violated_property": p, "key": key, "detail": v["detail"],
                       "count": v["count"], "jobs": v["jobs"], "tier": tier, "seed": seed,
                       "sanitizer_report": v.get("sanitizer_report", ""),
                       "tree_hash": tree_hash()}, fh, indent=1)
        print("VIOLATION property=%s replay=%s" % (p, path))
        print("  key: %s" % key)
        print("  witness: %s" % v["detail"][:1500])
        rc = 1
    if rc == 0 and out.inconclusive:
        print("INCONCLUSIVE property=%s: %s" % (prop, " | ".join(out.inconclusive[:5])[:3000]))
        rc = 2
    if rc == 0:
        print("OK property=%s tier=%s seed=%d: held on %d evaluations in %d runs, %d distinct non-trivial "
              "cases, %.1f s" % (prop, tier, seed, evaluations, out.runs, distinct, time.time() - t0))
    return rc


# ----------------------------------------------------------------------------------------
# entry points
# ----------------------------------------------------------------------------------------
def run_check(prop, tier, seed):
    import specs
    if prop not in specs.SPECS:
        print("unknown property %s" % prop)
        return 2
    t0 = time.time()
    try:
        return specs.SPECS[prop](prop, tier, seed, t0)
    except RuntimeError as e:
        print("INCONCLUSIVE property=%s: %s" % (prop, e))
        return 2


def setup():
    import specs
    try:
        ensure_builds(specs.all_builds())
    except RuntimeError as e:
        print("setup failed: %s" % e)
        return 2
    return 0


def replay(path):
    with open(path) as fh:
        rp = json.load(fh)
    jobs = [Job(j["build"], j["args"], j.get("timeout", 300), j.get("env")) for j in rp["jobs"]]
    results = run_jobs(jobs, parallel=1)
    out = aggregate(results)
    hit = False
    for (p, key), v in out.violations.items():
        print("replayed: property=%s key=%s count=%d\n  %s" % (p, key, v["count"], v["detail"][:1500]))
        if p == rp["violated_property"] and key == rp["key"]:
            hit = True
    print("REPRODUCED" if hit else "NOT REPRODUCED (concurrent violations depend on the schedule; "
          "the recorded witness is in the replay file)")
    return 1 if hit else 0
