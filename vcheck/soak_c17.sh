#!/bin/bash
cd "$(dirname "$0")/.."
for seed in 3 4 5; do ./vcheck/soak_some.sh thorough $seed C17; done
./vcheck/soak_some.sh thorough 3 C04 C16 C20 C05 C14 C15
