#!/bin/bash
# usage: vcheck/soak_some.sh <tier> <seed> <ID>...
tier=$1; seed=$2; shift 2
cd "$(dirname "$0")/.."
for p in "$@"; do
  out=$(VERIF_SEED=$seed ./check $p --tier $tier 2>&1 | grep -E "^(OK|VIOLATION|INCONCLUSIVE|  key)" | tr '\n' ' ' | cut -c1-400)
  echo "seed=$seed $out"
done
